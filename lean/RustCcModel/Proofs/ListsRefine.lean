import RustCcModel.Proofs.Lists
/-! # The lists of `src/lists.rs`, together: refinement to four plain lists

`LW` holds two `LinkedList`s, the `PossibleCycles` buffer and a `LinkedQueue` sharing one memory of boxes, as the collector
does. `AW` is the specification: four `List`s and the mark / tracing counter of each box. `R` relates them; every operation
of the driver keeps `R` (`step_refines`), so after any sequence of operations walking a structure lists exactly the
specification's list, the cached size of the buffer is its length, and a box is linked into at most one structure. -/
namespace RustCc.Lists

structure AW where
  l0 : List Nat := []
  l1 : List Nat := []
  p : List Nat := []
  q : List Nat := []
  mark : Nat → Nat := fun _ => 0
  tc : Nat → Nat := fun _ => 0
  ret : Option (Option Nat) := none

def AW.getL (a : AW) (i : Bool) : List Nat := if i then a.l1 else a.l0
def AW.setL (a : AW) (i : Bool) (v : List Nat) : AW := if i then { a with l1 := v } else { a with l0 := v }
/-- In how many places the four lists hold `x`. -/
def AW.cnt (a : AW) (x : Nat) : Nat := a.l0.count x + a.l1.count x + a.p.count x + a.q.count x

def setOn (f : Nat → Nat) (l : List Nat) (v : Nat) : Nat → Nat := fun y => if y ∈ l then v else f y

/-- The specification of the driver's operations. -/
def AW.stepC (n : Nat) (a : AW) (op : LOp) : AW :=
  match op with
  | .llAdd i x => if x < n ∧ a.cnt x = 0 then a.setL i (x :: a.getL i) else a
  | .llRemove i x => if x ∈ a.getL i then a.setL i ((a.getL i).erase x) else a
  | .llRemoveFirst i =>
    match a.getL i with
    | [] => { a with ret := some none }
    | x :: r => { (a.setL i r) with mark := setOn a.mark [x] 0, ret := some (some x) }
  | .llDrop i => { (a.setL i []) with mark := setOn a.mark (a.getL i) 0 }
  | .pcAdd x => if x < n ∧ a.cnt x = 0 then { a with p := x :: a.p } else a
  | .pcRemove x => if x ∈ a.p then { a with p := a.p.erase x } else a
  | .pcRemoveFirst =>
    match a.p with
    | [] => { a with ret := some none }
    | x :: r => { a with p := r, mark := setOn a.mark [x] 0, ret := some (some x) }
  | .pcAppend i mv =>
    if mv < 4 then { (a.setL i []) with p := a.p ++ a.getL i, mark := setOn a.mark a.p mv, tc := setOn a.tc a.p 0 } else a
  | .pcSwap i => { (a.setL i a.p) with p := a.getL i }
  | .qAdd x => if x < n ∧ a.cnt x = 0 then { a with q := a.q ++ [x] } else a
  | .qPoll =>
    match a.q with
    | [] => { a with ret := some none }
    | x :: r => { a with q := r, mark := setOn a.mark [x] 0, ret := some (some x) }
  | .qDrop => { a with q := [], mark := setOn a.mark a.q 0 }
  | .mark x mv => if x < n ∧ mv < 4 then { a with mark := setOn a.mark [x] mv } else a
  | .incTc x => if x < n then { a with tc := fun y => if y = x then a.tc y + 1 else a.tc y } else a

def AW.step (n : Nat) (a : AW) (op : LOp) : AW := AW.stepC n { a with ret := none } op

/-! ### Bookkeeping -/

@[simp] theorem AW.getL_setL_same (a : AW) (i : Bool) (v : List Nat) : (a.setL i v).getL i = v := by
  cases i <;> rfl
@[simp] theorem AW.getL_setL_not (a : AW) (i : Bool) (v : List Nat) : (a.setL i v).getL (!i) = a.getL (!i) := by
  cases i <;> rfl
@[simp] theorem AW.setL_p (a : AW) (i : Bool) (v : List Nat) : (a.setL i v).p = a.p := by cases i <;> rfl
@[simp] theorem AW.setL_q (a : AW) (i : Bool) (v : List Nat) : (a.setL i v).q = a.q := by cases i <;> rfl
@[simp] theorem AW.setL_mark (a : AW) (i : Bool) (v : List Nat) : (a.setL i v).mark = a.mark := by cases i <;> rfl
@[simp] theorem AW.setL_tc (a : AW) (i : Bool) (v : List Nat) : (a.setL i v).tc = a.tc := by cases i <;> rfl
@[simp] theorem AW.setL_ret (a : AW) (i : Bool) (v : List Nat) : (a.setL i v).ret = a.ret := by cases i <;> rfl

theorem AW.cnt_eq (a : AW) (i : Bool) (x : Nat) :
    a.cnt x = (a.getL i).count x + (a.getL (!i)).count x + a.p.count x + a.q.count x := by
  cases i <;> simp [AW.cnt, AW.getL] <;> omega

@[simp] theorem LW.getL_setL_same (w : LW) (i : Bool) (v : Option Nat) : (w.setL i v).getL i = v := by
  cases i <;> rfl
@[simp] theorem LW.getL_setL_not (w : LW) (i : Bool) (v : Option Nat) : (w.setL i v).getL (!i) = w.getL (!i) := by
  cases i <;> rfl
@[simp] theorem LW.setL_mem (w : LW) (i : Bool) (v : Option Nat) : (w.setL i v).mem = w.mem := by cases i <;> rfl
@[simp] theorem LW.setL_pc (w : LW) (i : Bool) (v : Option Nat) : (w.setL i v).pc = w.pc := by cases i <;> rfl
@[simp] theorem LW.setL_q (w : LW) (i : Bool) (v : Option Nat) : (w.setL i v).q = w.q := by cases i <;> rfl
@[simp] theorem LW.setL_n (w : LW) (i : Bool) (v : Option Nat) : (w.setL i v).n = w.n := by cases i <;> rfl
@[simp] theorem LW.setL_ret (w : LW) (i : Bool) (v : Option Nat) : (w.setL i v).ret = w.ret := by cases i <;> rfl

theorem nodup_length_le (n : Nat) : ∀ (l : List Nat), l.Nodup → (∀ x ∈ l, x < n) → l.length ≤ n := by
  induction n with
  | zero =>
    intro l _ h
    cases l with
    | nil => simp
    | cons x r => exact absurd (h x (by simp)) (by omega)
  | succ k ih =>
    intro l hn h
    have h1 := ih (l.erase k) (hn.erase k) (by
      intro x hx
      have := (hn.mem_erase_iff).1 hx
      have := h x this.2
      omega)
    by_cases hk : k ∈ l
    · rw [List.length_erase_of_mem hk] at h1; omega
    · rw [List.erase_of_not_mem hk] at h1; omega

/-! ### The relation -/

structure R (w : LW) (a : AW) : Prop where
  ll : ∀ i, IsList w.mem (w.getL i) (a.getL i)
  p : IsList w.mem w.pc.first a.p
  size : w.pc.size = a.p.length
  q : IsQ w.mem w.q a.q
  cnt : ∀ x, a.cnt x ≤ 1
  lt : ∀ x, 0 < a.cnt x → x < w.n
  free : ∀ x, a.cnt x = 0 → (w.mem x).next = none ∧ (w.mem x).prev = none
  qprev : ∀ x ∈ a.q, (w.mem x).prev = none
  mark : ∀ x, (w.mem x).mark = a.mark x
  tc : ∀ x, (w.mem x).tc = a.tc x
  ret : w.ret = a.ret

theorem R.init (n : Nat) : R { n := n } {} := by
  refine ⟨fun i => ?_, IsList.nil _, rfl, IsQ.nil _, fun x => by simp [AW.cnt], fun x h => by simp [AW.cnt] at h,
    fun x _ => ⟨rfl, rfl⟩, by simp, fun x => rfl, fun x => rfl, rfl⟩
  cases i <;> exact IsList.nil _

section
variable {w : LW} {a : AW}

theorem R.mem_lt (h : R w a) {x : Nat} {l : List Nat} (hl : ∀ y, l.count y ≤ a.cnt y) (hx : x ∈ l) : x < w.n := by
  apply h.lt
  have := List.count_pos_iff.2 hx
  have := hl x
  omega

theorem R.le_l (a : AW) (i : Bool) : ∀ y, (a.getL i).count y ≤ a.cnt y := by
  intro y; rw [a.cnt_eq i y]; omega
theorem R.le_p (a : AW) : ∀ y, a.p.count y ≤ a.cnt y := by intro y; simp only [AW.cnt]; omega
theorem R.le_q (a : AW) : ∀ y, a.q.count y ≤ a.cnt y := by intro y; simp only [AW.cnt]; omega

theorem R.len_le (h : R w a) {l : List Nat} (hn : l.Nodup) (hl : ∀ y, l.count y ≤ a.cnt y) : l.length ≤ w.n + 1 := by
  have := nodup_length_le w.n l hn (fun x hx => h.mem_lt hl hx)
  omega

/-- Walking a structure lists the specification's list. -/
theorem R.members_l (h : R w a) (i : Bool) : w.members (w.getL i) = a.getL i :=
  walk_of_DL (h.ll i).dl _ (h.len_le (h.ll i).nodup (R.le_l a i))
theorem R.members_p (h : R w a) : w.members w.pc.first = a.p :=
  walk_of_DL h.p.dl _ (h.len_le h.p.nodup (R.le_p a))
theorem R.members_q (h : R w a) : w.members w.q.first = a.q :=
  walk_of_SL h.q.sl _ (h.len_le h.q.nodup (R.le_q a))

theorem R.free_iff (h : R w a) (x : Nat) : w.free x = true ↔ x < w.n ∧ a.cnt x = 0 := by
  have h0 : w.members w.l0 = a.l0 := h.members_l false
  have h1 : w.members w.l1 = a.l1 := h.members_l true
  simp only [LW.free, h0, h1, h.members_p, h.members_q, AW.cnt, AW.getL, Bool.and_eq_true, decide_eq_true_eq,
    Bool.not_eq_true', List.contains_eq_mem, decide_eq_false_iff_not, Bool.false_eq_true, if_false, if_true]
  simp only [← List.count_eq_zero]
  omega

theorem R.not_mem_of_cnt (h0 : a.cnt x = 0) : x ∉ a.getL i ∧ x ∉ a.p ∧ x ∉ a.q := by
  rw [a.cnt_eq i x] at h0
  simp only [← List.count_eq_zero]
  omega

/-- A box is linked into at most one structure. -/
theorem R.disj_l (h : R w a) (i : Bool) {x : Nat} (hx : x ∈ a.getL i) : x ∉ a.getL (!i) ∧ x ∉ a.p ∧ x ∉ a.q := by
  have h1 := h.cnt x
  rw [a.cnt_eq i x] at h1
  have := List.count_pos_iff.2 hx
  simp only [← List.count_eq_zero]
  omega
theorem R.disj_p (h : R w a) {x : Nat} (hx : x ∈ a.p) : (∀ i, x ∉ a.getL i) ∧ x ∉ a.q := by
  have h1 := h.cnt x
  have := List.count_pos_iff.2 hx
  refine ⟨fun i => ?_, ?_⟩
  · rw [a.cnt_eq i x] at h1
    simp only [← List.count_eq_zero]; omega
  · simp only [AW.cnt] at h1
    simp only [← List.count_eq_zero]; omega
theorem R.disj_q (h : R w a) {x : Nat} (hx : x ∈ a.q) : (∀ i, x ∉ a.getL i) ∧ x ∉ a.p := by
  have h1 := h.cnt x
  have := List.count_pos_iff.2 hx
  refine ⟨fun i => ?_, ?_⟩
  · rw [a.cnt_eq i x] at h1
    simp only [← List.count_eq_zero]; omega
  · simp only [AW.cnt] at h1
    simp only [← List.count_eq_zero]; omega

end

theorem IsList.keep {m m' : Mem} {first : Option Nat} {l : List Nat} (h : IsList m first l) (hk : ∀ y ∈ l, m' y = m y) :
    IsList m' first l := h.congr (fun y hy => by rw [hk y hy]; exact ⟨rfl, rfl⟩)

theorem IsQ.keep {m m' : Mem} {q : Q} {l : List Nat} (h : IsQ m q l) (hk : ∀ y ∈ l, m' y = m y) : IsQ m' q l :=
  ⟨SL_congr (fun y hy => by rw [hk y hy]) h.sl, h.last, h.nodup⟩

theorem R.clearRet {w : LW} {a : AW} (h : R w a) : R { w with ret := none } { a with ret := none } :=
  ⟨h.ll, h.p, h.size, h.q, h.cnt, h.lt, h.free, h.qprev, h.mark, h.tc, rfl⟩

theorem not_eq_of_ne {i j : Bool} (h : ¬j = i) : j = !i := by cases i <;> cases j <;> simp_all

theorem llAdd_refines {w : LW} {a : AW} (h : R w a) (i : Bool) (x : Nat) :
    R (w.stepC (.llAdd i x)) (a.stepC w.n (.llAdd i x)) := by
  simp only [LW.stepC, AW.stepC]
  by_cases hf : x < w.n ∧ a.cnt x = 0
  · rw [if_pos ((h.free_iff x).2 hf), if_pos hf]
    obtain ⟨hxl, hxp, hxq⟩ := R.not_mem_of_cnt (i := i) hf.2
    have hxo := (R.not_mem_of_cnt (i := !i) hf.2).1
    obtain ⟨hfn, hfp⟩ := h.free x hf.2
    obtain ⟨s1, s2, s3, s4⟩ := llAdd_spec (h.ll i) x hxl hfn hfp
    have hcnt : ∀ y, (a.setL i (x :: a.getL i)).cnt y = a.cnt y + (if y = x then 1 else 0) := by
      intro y
      rw [AW.cnt_eq _ i y, a.cnt_eq i y]
      simp only [AW.getL_setL_same, AW.getL_setL_not, AW.setL_p, AW.setL_q, List.count_cons]
      by_cases e : y = x
      · subst e; simp; omega
      · have : (x == y) = false := by simpa using fun e' => e e'.symm
        simp [this, e]
    refine ⟨?_, ?_, by simpa using h.size, ?_, ?_, ?_, ?_, ?_, ?_, ?_, by simpa using h.ret⟩
    · intro j
      by_cases hj : j = i
      · subst hj; simpa using s1
      · have := not_eq_of_ne hj; subst this
        simp only [LW.getL_setL_not, AW.getL_setL_not, LW.setL_mem]
        exact (h.ll (!i)).keep (fun y hy => s3 y (by
          have := (h.disj_l (!i) hy).1
          simp only [Bool.not_not] at this
          simp only [List.mem_cons, not_or]
          exact ⟨fun e => hxo (e ▸ hy), this⟩))
    · simp only [LW.setL_mem, LW.setL_pc, AW.setL_p]
      exact h.p.keep (fun y hy => s3 y (by
        simp only [List.mem_cons, not_or]
        exact ⟨fun e => hxp (e ▸ hy), (h.disj_p hy).1 i⟩))
    · simp only [LW.setL_mem, LW.setL_q, AW.setL_q]
      exact h.q.keep (fun y hy => s3 y (by
        simp only [List.mem_cons, not_or]
        exact ⟨fun e => hxq (e ▸ hy), (h.disj_q hy).1 i⟩))
    · intro y; rw [hcnt y]
      by_cases e : y = x
      · subst e; simp [hf.2]
      · simp [e]; exact h.cnt y
    · intro y hy; rw [hcnt y] at hy
      simp only [LW.setL_n]
      by_cases e : y = x
      · subst e; exact hf.1
      · simp [e] at hy; exact h.lt y hy
    · intro y hy; rw [hcnt y] at hy
      have e : y ≠ x := fun e => by subst e; simp at hy
      simp [e] at hy
      simp only [LW.setL_mem]
      rw [s3 y (by
        simp only [List.mem_cons, not_or]
        exact ⟨e, (R.not_mem_of_cnt (i := i) hy).1⟩)]
      exact h.free y hy
    · intro y hy
      simp only [AW.setL_q] at hy
      simp only [LW.setL_mem]
      rw [s3 y (by
        simp only [List.mem_cons, not_or]
        exact ⟨fun e => hxq (e ▸ hy), (h.disj_q hy).1 i⟩)]
      exact h.qprev y hy
    · intro y; simp only [LW.setL_mem, AW.setL_mark]; rw [(s4 y).1]; exact h.mark y
    · intro y; simp only [LW.setL_mem, AW.setL_tc]; rw [(s4 y).2]; exact h.tc y
  · rw [if_neg (fun e => hf ((h.free_iff x).1 e)), if_neg hf]
    exact h

/-! ### Structures an operation does not touch -/

section keep
variable {w : LW} {a : AW} (h : R w a) {m' : Mem} (T : List Nat) (hfr : ∀ y, y ∉ T → m' y = w.mem y)
include h hfr

theorem R.keep_ll (j : Bool) (hd : ∀ y ∈ a.getL j, y ∉ T) : IsList m' (w.getL j) (a.getL j) :=
  (h.ll j).keep (fun y hy => hfr y (hd y hy))
theorem R.keep_p (hd : ∀ y ∈ a.p, y ∉ T) : IsList m' w.pc.first a.p := h.p.keep (fun y hy => hfr y (hd y hy))
theorem R.keep_q (hd : ∀ y ∈ a.q, y ∉ T) : IsQ m' w.q a.q := h.q.keep (fun y hy => hfr y (hd y hy))
theorem R.keep_free (y : Nat) (hy : y ∉ T) (hc : a.cnt y = 0) : (m' y).next = none ∧ (m' y).prev = none := by
  rw [hfr y hy]; exact h.free y hc
theorem R.keep_qprev (hd : ∀ y ∈ a.q, y ∉ T) : ∀ y ∈ a.q, (m' y).prev = none := by
  intro y hy; rw [hfr y (hd y hy)]; exact h.qprev y hy
end keep

theorem count_erase_add (l : List Nat) (x y : Nat) (hx : x ∈ l) :
    (l.erase x).count y + (if y = x then 1 else 0) = l.count y := by
  by_cases e : y = x
  · subst e
    have := List.count_pos_iff.2 hx
    simp [List.count_erase_self]; omega
  · simp [List.count_erase_of_ne e, e]

theorem llRemove_refines {w : LW} {a : AW} (h : R w a) (i : Bool) (x : Nat) :
    R (w.stepC (.llRemove i x)) (a.stepC w.n (.llRemove i x)) := by
  simp only [LW.stepC, AW.stepC, h.members_l i, List.contains_eq_mem, decide_eq_true_eq]
  by_cases hx : x ∈ a.getL i
  · rw [if_pos hx, if_pos hx]
    obtain ⟨s1, s2, s3, s4, s5⟩ := llRemove_spec (h.ll i) x hx
    have hcnt : ∀ y, (a.setL i ((a.getL i).erase x)).cnt y + (if y = x then 1 else 0) = a.cnt y := by
      intro y
      rw [AW.cnt_eq _ i y, a.cnt_eq i y]
      simp only [AW.getL_setL_same, AW.getL_setL_not, AW.setL_p, AW.setL_q]
      have := count_erase_add (a.getL i) x y hx
      omega
    have hd := fun y (hy : y ∈ a.getL (!i)) => by
      have := (h.disj_l (!i) hy).1; simpa using this
    refine ⟨?_, ?_, by simpa using h.size, ?_, ?_, ?_, ?_, ?_, ?_, ?_, by simpa using h.ret⟩
    · intro j
      by_cases hj : j = i
      · subst hj; simpa using s1
      · have := not_eq_of_ne hj; subst this
        simp only [LW.getL_setL_not, AW.getL_setL_not, LW.setL_mem]
        exact h.keep_ll (a.getL i) s4 (!i) hd
    · simp only [LW.setL_mem, LW.setL_pc, AW.setL_p]
      exact h.keep_p (a.getL i) s4 (fun y hy => (h.disj_p hy).1 i)
    · simp only [LW.setL_mem, LW.setL_q, AW.setL_q]
      exact h.keep_q (a.getL i) s4 (fun y hy => (h.disj_q hy).1 i)
    · intro y; have := hcnt y; have := h.cnt y; omega
    · intro y hy; simp only [LW.setL_n]; apply h.lt; have := hcnt y; omega
    · intro y hy
      simp only [LW.setL_mem]
      by_cases e : y = x
      · subst e; exact ⟨s2, s3⟩
      · have h0 : a.cnt y = 0 := by have := hcnt y; simp [e] at this; omega
        exact h.keep_free (a.getL i) s4 y (R.not_mem_of_cnt h0).1 h0
    · simp only [LW.setL_mem, AW.setL_q]
      exact h.keep_qprev (a.getL i) s4 (fun y hy => (h.disj_q hy).1 i)
    · intro y; simp only [LW.setL_mem, AW.setL_mark]; rw [(s5 y).1]; exact h.mark y
    · intro y; simp only [LW.setL_mem, AW.setL_tc]; rw [(s5 y).2]; exact h.tc y
  · rw [if_neg hx, if_neg hx]
    exact h

theorem setL_same_getL (w : LW) (i : Bool) : w.setL i (w.getL i) = w := by cases i <;> rfl
theorem a_setL_same_getL (a : AW) (i : Bool) : a.setL i (a.getL i) = a := by cases i <;> rfl

theorem llRemoveFirst_refines {w : LW} {a : AW} (h : R w a) (i : Bool) :
    R (w.stepC (.llRemoveFirst i)) (a.stepC w.n (.llRemoveFirst i)) := by
  simp only [LW.stepC, AW.stepC]
  cases hl : a.getL i with
  | nil =>
    have hf : w.getL i = none := by have := (h.ll i).first_eq; rw [hl] at this; exact this
    simp only [hf, llRemoveFirst_nil]
    have e1 : ({ w with ret := some none } : LW).setL i none = { w with ret := some none } := by
      have := setL_same_getL { w with ret := some none } i
      rw [show ({ w with ret := some none } : LW).getL i = none from hf] at this
      exact this
    rw [e1]
    exact ⟨h.ll, h.p, h.size, h.q, h.cnt, h.lt, h.free, h.qprev, h.mark, h.tc, rfl⟩
  | cons x r =>
    have hli := h.ll i
    rw [hl] at hli
    obtain ⟨s1, s2, s3, s4, s5, s6, s7, s8⟩ := llRemoveFirst_spec hli
    have hxr : x ∉ r := (List.nodup_cons.1 hli.nodup).1
    simp only []
    have hcnt : ∀ y, (a.setL i r).cnt y + (if y = x then 1 else 0) = a.cnt y := by
      intro y
      rw [AW.cnt_eq _ i y, a.cnt_eq i y, hl]
      simp only [AW.getL_setL_same, AW.getL_setL_not, AW.setL_p, AW.setL_q, List.count_cons]
      by_cases e : y = x
      · subst e; simp; omega
      · have : (x == y) = false := by simpa using fun e' => e e'.symm
        simp [this, e]
    have s7' : ∀ y, y ∉ a.getL i → (llRemoveFirst w.mem (w.getL i)).1 y = w.mem y := by rw [hl]; exact s7
    have hd := fun y (hy : y ∈ a.getL (!i)) => by
      have := (h.disj_l (!i) hy).1; simpa using this
    have hcnt' : ∀ y, AW.cnt { (a.setL i r) with mark := setOn a.mark [x] 0, ret := some (some x) } y = (a.setL i r).cnt y :=
      fun y => rfl
    refine ⟨?_, ?_, by simpa using h.size, ?_, ?_, ?_, ?_, ?_, ?_, ?_, ?_⟩
    · intro j
      by_cases hj : j = i
      · subst hj
        have : AW.getL { (a.setL j r) with mark := setOn a.mark [x] 0, ret := some (some x) } j = r := AW.getL_setL_same a j r
        rw [this]; simpa using s2
      · have := not_eq_of_ne hj; subst this
        have e : AW.getL { (a.setL i r) with mark := setOn a.mark [x] 0, ret := some (some x) } (!i) = a.getL (!i) :=
          AW.getL_setL_not a i r
        rw [e]
        simp only [LW.getL_setL_not, LW.setL_mem]
        exact h.keep_ll (a.getL i) s7' (!i) hd
    · simp only [LW.setL_mem, LW.setL_pc, AW.setL_p]
      exact h.keep_p (a.getL i) s7' (fun y hy => (h.disj_p hy).1 i)
    · simp only [LW.setL_mem, LW.setL_q, AW.setL_q]
      exact h.keep_q (a.getL i) s7' (fun y hy => (h.disj_q hy).1 i)
    · intro y; rw [hcnt' y]; have := hcnt y; have := h.cnt y; omega
    · intro y hy; rw [hcnt' y] at hy; simp only [LW.setL_n]; apply h.lt; have := hcnt y; omega
    · intro y hy
      rw [hcnt' y] at hy
      simp only [LW.setL_mem]
      by_cases e : y = x
      · subst e; exact ⟨s3, s4⟩
      · have h0 : a.cnt y = 0 := by have := hcnt y; simp [e] at this; omega
        exact h.keep_free (a.getL i) s7' y (R.not_mem_of_cnt h0).1 h0
    · simp only [LW.setL_mem, AW.setL_q]
      exact h.keep_qprev (a.getL i) s7' (fun y hy => (h.disj_q hy).1 i)
    · intro y
      simp only [LW.setL_mem, setOn, List.mem_singleton]
      by_cases e : y = x
      · subst e; simpa using s5
      · simp only [e, if_false]; rw [(s8 y e).1]; exact h.mark y
    · intro y
      simp only [LW.setL_mem, AW.setL_tc]
      by_cases e : y = x
      · subst e; rw [s6]; exact h.tc y
      · rw [(s8 y e).2]; exact h.tc y
    · simp only [LW.setL_ret]; rw [s1]

theorem llDrop_refines {w : LW} {a : AW} (h : R w a) (i : Bool) :
    R (w.stepC (.llDrop i)) (a.stepC w.n (.llDrop i)) := by
  simp only [LW.stepC, AW.stepC]
  have hlen := h.len_le (h.ll i).nodup (R.le_l a i)
  obtain ⟨s1, s2, s3⟩ := llDrop_spec (h.ll i) (w.n + 1) hlen
  have hcnt : ∀ y, (a.setL i []).cnt y + (a.getL i).count y = a.cnt y := by
    intro y
    rw [AW.cnt_eq _ i y, a.cnt_eq i y]
    simp only [AW.getL_setL_same, AW.getL_setL_not, AW.setL_p, AW.setL_q, List.count_nil]
    omega
  have hd := fun y (hy : y ∈ a.getL (!i)) => by
    have := (h.disj_l (!i) hy).1; simpa using this
  have hcnt' : ∀ y, AW.cnt { (a.setL i []) with mark := setOn a.mark (a.getL i) 0 } y = (a.setL i []).cnt y := fun y => rfl
  refine ⟨?_, ?_, by simpa using h.size, ?_, ?_, ?_, ?_, ?_, ?_, ?_, by simpa using h.ret⟩
  · intro j
    by_cases hj : j = i
    · subst hj
      have : AW.getL { (a.setL j []) with mark := setOn a.mark (a.getL j) 0 } j = [] := AW.getL_setL_same a j []
      rw [this]; simp only [LW.getL_setL_same, s1]; exact IsList.nil _
    · have := not_eq_of_ne hj; subst this
      have e : AW.getL { (a.setL i []) with mark := setOn a.mark (a.getL i) 0 } (!i) = a.getL (!i) := AW.getL_setL_not a i []
      rw [e]
      simp only [LW.getL_setL_not, LW.setL_mem]
      exact h.keep_ll (a.getL i) s3 (!i) hd
  · simp only [LW.setL_mem, LW.setL_pc, AW.setL_p]
    exact h.keep_p (a.getL i) s3 (fun y hy => (h.disj_p hy).1 i)
  · simp only [LW.setL_mem, LW.setL_q, AW.setL_q]
    exact h.keep_q (a.getL i) s3 (fun y hy => (h.disj_q hy).1 i)
  · intro y; rw [hcnt' y]; have := hcnt y; have := h.cnt y; omega
  · intro y hy; rw [hcnt' y] at hy; simp only [LW.setL_n]; apply h.lt; have := hcnt y; omega
  · intro y hy
    rw [hcnt' y] at hy
    simp only [LW.setL_mem]
    by_cases e : y ∈ a.getL i
    · exact ⟨(s2 y e).1, (s2 y e).2.1⟩
    · have h0 : a.cnt y = 0 := by have := hcnt y; have := List.count_eq_zero.2 e; omega
      exact h.keep_free (a.getL i) s3 y e h0
  · simp only [LW.setL_mem, AW.setL_q]
    exact h.keep_qprev (a.getL i) s3 (fun y hy => (h.disj_q hy).1 i)
  · intro y
    simp only [LW.setL_mem, setOn]
    by_cases e : y ∈ a.getL i
    · simp only [e, if_true]; exact (s2 y e).2.2.1
    · simp only [e, if_false]; rw [s3 y e]; exact h.mark y
  · intro y
    simp only [LW.setL_mem, AW.setL_tc]
    by_cases e : y ∈ a.getL i
    · rw [(s2 y e).2.2.2]; exact h.tc y
    · rw [s3 y e]; exact h.tc y

/-! ### The buffer -/

theorem pcAdd_refines {w : LW} {a : AW} (h : R w a) (x : Nat) :
    R (w.stepC (.pcAdd x)) (a.stepC w.n (.pcAdd x)) := by
  simp only [LW.stepC, AW.stepC]
  by_cases hf : x < w.n ∧ a.cnt x = 0
  · rw [if_pos ((h.free_iff x).2 hf), if_pos hf]
    obtain ⟨_, hxp, hxq⟩ := R.not_mem_of_cnt (i := false) hf.2
    obtain ⟨hfn, hfp⟩ := h.free x hf.2
    obtain ⟨s1, s2, s3, s4⟩ := llAdd_spec h.p x hxp hfn hfp
    have hcnt : ∀ y, AW.cnt { a with p := x :: a.p } y = a.cnt y + (if y = x then 1 else 0) := by
      intro y
      simp only [AW.cnt, List.count_cons]
      by_cases e : y = x
      · subst e; simp; omega
      · have : (x == y) = false := by simpa using fun e' => e e'.symm
        simp [this, e]
    simp only [pcAdd]
    refine ⟨?_, s1, by simp [h.size], ?_, ?_, ?_, ?_, ?_, ?_, ?_, h.ret⟩
    · intro j
      exact h.keep_ll (x :: a.p) s3 j (fun y hy => by
        simp only [List.mem_cons, not_or]
        exact ⟨fun e => (R.not_mem_of_cnt (i := j) hf.2).1 (e ▸ hy), (h.disj_l j hy).2.1⟩)
    · exact h.keep_q (x :: a.p) s3 (fun y hy => by
        simp only [List.mem_cons, not_or]
        exact ⟨fun e => hxq (e ▸ hy), (h.disj_q hy).2⟩)
    · intro y; rw [hcnt y]
      by_cases e : y = x
      · subst e; simp [hf.2]
      · simp [e]; exact h.cnt y
    · intro y hy; rw [hcnt y] at hy
      by_cases e : y = x
      · subst e; exact hf.1
      · simp [e] at hy; exact h.lt y hy
    · intro y hy; rw [hcnt y] at hy
      have e : y ≠ x := fun e => by subst e; simp at hy
      simp [e] at hy
      exact h.keep_free (x :: a.p) s3 y (by
        simp only [List.mem_cons, not_or]
        exact ⟨e, (R.not_mem_of_cnt (i := false) hy).2.1⟩) hy
    · exact h.keep_qprev (x :: a.p) s3 (fun y hy => by
        simp only [List.mem_cons, not_or]
        exact ⟨fun e => hxq (e ▸ hy), (h.disj_q hy).2⟩)
    · intro y; rw [(s4 y).1]; exact h.mark y
    · intro y; rw [(s4 y).2]; exact h.tc y
  · rw [if_neg (fun e => hf ((h.free_iff x).1 e)), if_neg hf]
    exact h

theorem pcRemove_refines {w : LW} {a : AW} (h : R w a) (x : Nat) :
    R (w.stepC (.pcRemove x)) (a.stepC w.n (.pcRemove x)) := by
  simp only [LW.stepC, AW.stepC, h.members_p, List.contains_eq_mem, decide_eq_true_eq]
  by_cases hx : x ∈ a.p
  · rw [if_pos hx, if_pos hx]
    obtain ⟨s1, s2, s3, s4, s5⟩ := llRemove_spec h.p x hx
    have hcnt : ∀ y, AW.cnt { a with p := a.p.erase x } y + (if y = x then 1 else 0) = a.cnt y := by
      intro y
      simp only [AW.cnt]
      have := count_erase_add a.p x y hx
      omega
    simp only [pcRemove]
    have hlen : a.p.length ≠ 0 := by
      intro e; rw [List.length_eq_zero_iff] at e; rw [e] at hx; simp at hx
    refine ⟨?_, s1, by simp [h.size, List.length_erase_of_mem hx], ?_, ?_, ?_, ?_, ?_, ?_, ?_, h.ret⟩
    · intro j
      exact h.keep_ll a.p s4 j (fun y hy => (h.disj_l j hy).2.1)
    · exact h.keep_q a.p s4 (fun y hy => (h.disj_q hy).2)
    · intro y; have := hcnt y; have := h.cnt y; omega
    · intro y hy; apply h.lt; have := hcnt y; omega
    · intro y hy
      by_cases e : y = x
      · subst e; exact ⟨s2, s3⟩
      · have h0 : a.cnt y = 0 := by have := hcnt y; simp [e] at this; omega
        exact h.keep_free a.p s4 y (R.not_mem_of_cnt (i := false) h0).2.1 h0
    · exact h.keep_qprev a.p s4 (fun y hy => (h.disj_q hy).2)
    · intro y; rw [(s5 y).1]; exact h.mark y
    · intro y; rw [(s5 y).2]; exact h.tc y
  · rw [if_neg hx, if_neg hx]
    exact h

theorem pcRemoveFirst_refines {w : LW} {a : AW} (h : R w a) :
    R (w.stepC .pcRemoveFirst) (a.stepC w.n .pcRemoveFirst) := by
  simp only [LW.stepC, AW.stepC]
  cases hl : a.p with
  | nil =>
    have hf : w.pc.first = none := by have := h.p.first_eq; rw [hl] at this; exact this
    simp only [pcRemoveFirst, hf]
    have ea : (⟨a.l0, a.l1, [], a.q, a.mark, a.tc, some none⟩ : AW) = { a with ret := some none } := by rw [hl]
    rw [ea]
    exact ⟨h.ll, h.p, h.size, h.q, h.cnt, h.lt, h.free, h.qprev, h.mark, h.tc, rfl⟩
  | cons x r =>
    have hli := h.p
    rw [hl] at hli
    have hf : w.pc.first = some x := hli.dl.1
    obtain ⟨s1, s2, s3, s4, s5, s6, s7, s8⟩ := llRemoveFirst_spec hli
    simp only [pcRemoveFirst, hf]
    rw [hf] at s1 s2 s3 s4 s5 s6 s7 s8
    have hcnt : ∀ y, AW.cnt { a with p := r, mark := setOn a.mark [x] 0, ret := some (some x) } y + (if y = x then 1 else 0) = a.cnt y := by
      intro y
      simp only [AW.cnt, hl, List.count_cons]
      by_cases e : y = x
      · subst e; simp; omega
      · have : (x == y) = false := by simpa using fun e' => e e'.symm
        simp [this, e]
    have s7' : ∀ y, y ∉ a.p → (llRemoveFirst w.mem (some x)).1 y = w.mem y := by rw [hl]; exact s7
    refine ⟨?_, s2, by simp [h.size, hl], ?_, ?_, ?_, ?_, ?_, ?_, ?_, by rw [s1]⟩
    · intro j
      exact h.keep_ll a.p s7' j (fun y hy => (h.disj_l j hy).2.1)
    · exact h.keep_q a.p s7' (fun y hy => (h.disj_q hy).2)
    · intro y; have := hcnt y; have := h.cnt y; omega
    · intro y hy; apply h.lt; have := hcnt y; omega
    · intro y hy
      by_cases e : y = x
      · subst e; exact ⟨s3, s4⟩
      · have h0 : a.cnt y = 0 := by have := hcnt y; simp [e] at this; omega
        exact h.keep_free a.p s7' y (R.not_mem_of_cnt (i := false) h0).2.1 h0
    · exact h.keep_qprev a.p s7' (fun y hy => (h.disj_q hy).2)
    · intro y
      simp only [setOn, List.mem_singleton]
      by_cases e : y = x
      · subst e; simpa using s5
      · simp only [e, if_false]; rw [(s8 y e).1]; exact h.mark y
    · intro y
      by_cases e : y = x
      · subst e; rw [s6]; exact h.tc y
      · rw [(s8 y e).2]; exact h.tc y

theorem pcAppend_refines {w : LW} {a : AW} (h : R w a) (i : Bool) (mv : Nat) :
    R (w.stepC (.pcAppend i mv)) (a.stepC w.n (.pcAppend i mv)) := by
  simp only [LW.stepC, AW.stepC]
  by_cases hm : mv < 4
  · rw [if_pos hm, if_pos hm, h.members_l i]
    have hlen := h.len_le h.p.nodup (R.le_p a)
    obtain ⟨s1, s2, s3, s4, s5⟩ := pcAppend_spec mv (w.n + 1) h.p (h.ll i) (fun y hy => (h.disj_p hy).1 i) h.size hlen
    have hcnt : ∀ y, AW.cnt { (a.setL i []) with p := a.p ++ a.getL i, mark := setOn a.mark a.p mv, tc := setOn a.tc a.p 0 } y = a.cnt y := by
      intro y
      have e1 := AW.cnt_eq { (a.setL i []) with p := a.p ++ a.getL i, mark := setOn a.mark a.p mv, tc := setOn a.tc a.p 0 } i y
      have e2 : AW.getL { (a.setL i []) with p := a.p ++ a.getL i, mark := setOn a.mark a.p mv, tc := setOn a.tc a.p 0 } i = [] :=
        AW.getL_setL_same a i []
      have e3 : AW.getL { (a.setL i []) with p := a.p ++ a.getL i, mark := setOn a.mark a.p mv, tc := setOn a.tc a.p 0 } (!i) = a.getL (!i) :=
        AW.getL_setL_not a i []
      rw [e1, e2, e3, a.cnt_eq i y]
      simp only [List.count_nil, List.count_append, AW.setL_q]
      omega
    have hd := fun y (hy : y ∈ a.getL (!i)) => by
      have := (h.disj_l (!i) hy).1; simpa using this
    refine ⟨?_, ?_, ?_, ?_, ?_, ?_, ?_, ?_, ?_, ?_, by simpa using h.ret⟩
    · intro j
      by_cases hj : j = i
      · subst hj
        have e2 : AW.getL { (a.setL j []) with p := a.p ++ a.getL j, mark := setOn a.mark a.p mv, tc := setOn a.tc a.p 0 } j = [] :=
          AW.getL_setL_same a j []
        rw [e2]; simp only [LW.getL_setL_same]; exact IsList.nil _
      · have := not_eq_of_ne hj; subst this
        have e3 : AW.getL { (a.setL i []) with p := a.p ++ a.getL i, mark := setOn a.mark a.p mv, tc := setOn a.tc a.p 0 } (!i) = a.getL (!i) :=
          AW.getL_setL_not a i []
        rw [e3]
        simp only [LW.getL_setL_not, LW.setL_mem]
        exact h.keep_ll (a.p ++ a.getL i) s5 (!i) (fun y hy => by
          simp only [List.mem_append, not_or]
          exact ⟨(h.disj_l (!i) hy).2.1, hd y hy⟩)
    · simpa using s1
    · simpa using s2
    · simp only [LW.setL_mem, LW.setL_q, AW.setL_q]
      exact h.keep_q (a.p ++ a.getL i) s5 (fun y hy => by
        simp only [List.mem_append, not_or]
        exact ⟨(h.disj_q hy).2, (h.disj_q hy).1 i⟩)
    · intro y; rw [hcnt y]; exact h.cnt y
    · intro y hy; rw [hcnt y] at hy; simp only [LW.setL_n]; exact h.lt y hy
    · intro y hy; rw [hcnt y] at hy
      simp only [LW.setL_mem]
      exact h.keep_free (a.p ++ a.getL i) s5 y (by
        simp only [List.mem_append, not_or]
        exact ⟨(R.not_mem_of_cnt (i := i) hy).2.1, (R.not_mem_of_cnt (i := i) hy).1⟩) hy
    · simp only [LW.setL_mem, AW.setL_q]
      exact h.keep_qprev (a.p ++ a.getL i) s5 (fun y hy => by
        simp only [List.mem_append, not_or]
        exact ⟨(h.disj_q hy).2, (h.disj_q hy).1 i⟩)
    · intro y
      simp only [LW.setL_mem, setOn]
      by_cases e : y ∈ a.p
      · simp only [e, if_true]; exact (s3 y e).1
      · simp only [e, if_false]; rw [(s4 y e).1]; exact h.mark y
    · intro y
      simp only [LW.setL_mem, setOn]
      by_cases e : y ∈ a.p
      · simp only [e, if_true]; exact (s3 y e).2
      · simp only [e, if_false]; rw [(s4 y e).2]; exact h.tc y
  · rw [if_neg hm, if_neg hm]
    exact h

theorem pcSwap_refines {w : LW} {a : AW} (h : R w a) (i : Bool) :
    R (w.stepC (.pcSwap i)) (a.stepC w.n (.pcSwap i)) := by
  simp only [LW.stepC, AW.stepC, pcSwap, h.members_l i]
  have hcnt : ∀ y, AW.cnt { (a.setL i a.p) with p := a.getL i } y = a.cnt y := by
    intro y
    have e1 := AW.cnt_eq { (a.setL i a.p) with p := a.getL i } i y
    have e2 : AW.getL { (a.setL i a.p) with p := a.getL i } i = a.p := AW.getL_setL_same a i a.p
    have e3 : AW.getL { (a.setL i a.p) with p := a.getL i } (!i) = a.getL (!i) := AW.getL_setL_not a i a.p
    rw [e1, e2, e3, a.cnt_eq i y]
    simp only [AW.setL_q]
    omega
  refine ⟨?_, ?_, ?_, ?_, ?_, ?_, ?_, ?_, ?_, ?_, by simpa using h.ret⟩
  · intro j
    by_cases hj : j = i
    · subst hj
      have e2 : AW.getL { (a.setL j a.p) with p := a.getL j } j = a.p := AW.getL_setL_same a j a.p
      rw [e2]; simpa using h.p
    · have := not_eq_of_ne hj; subst this
      have e3 : AW.getL { (a.setL i a.p) with p := a.getL i } (!i) = a.getL (!i) := AW.getL_setL_not a i a.p
      rw [e3]; simp only [LW.getL_setL_not, LW.setL_mem]; exact h.ll (!i)
  · simpa using h.ll i
  · simp
  · simpa using h.q
  · intro y; rw [hcnt y]; exact h.cnt y
  · intro y hy; rw [hcnt y] at hy; simpa using h.lt y hy
  · intro y hy; rw [hcnt y] at hy; simpa using h.free y hy
  · simpa using h.qprev
  · simpa using h.mark
  · simpa using h.tc

/-! ### The queue -/

theorem qAdd_refines {w : LW} {a : AW} (h : R w a) (x : Nat) :
    R (w.stepC (.qAdd x)) (a.stepC w.n (.qAdd x)) := by
  simp only [LW.stepC, AW.stepC]
  by_cases hf : x < w.n ∧ a.cnt x = 0
  · rw [if_pos ((h.free_iff x).2 hf), if_pos hf]
    obtain ⟨_, hxp, hxq⟩ := R.not_mem_of_cnt (i := false) hf.2
    obtain ⟨hfn, hfp⟩ := h.free x hf.2
    obtain ⟨s1, s2, s3⟩ := qAdd_spec h.q x hxq hfn
    have hcnt : ∀ y, AW.cnt { a with q := a.q ++ [x] } y = a.cnt y + (if y = x then 1 else 0) := by
      intro y
      simp only [AW.cnt, List.count_append, List.count_cons, List.count_nil]
      by_cases e : y = x
      · subst e; simp; omega
      · have : (x == y) = false := by simpa using fun e' => e e'.symm
        simp [this, e]
    refine ⟨?_, ?_, h.size, s1, ?_, ?_, ?_, ?_, ?_, ?_, h.ret⟩
    · intro j
      exact h.keep_ll a.q s3 j (fun y hy => (h.disj_l j hy).2.2)
    · exact h.keep_p a.q s3 (fun y hy => (h.disj_p hy).2)
    · intro y; rw [hcnt y]
      by_cases e : y = x
      · subst e; simp [hf.2]
      · simp [e]; exact h.cnt y
    · intro y hy; rw [hcnt y] at hy
      by_cases e : y = x
      · subst e; exact hf.1
      · simp [e] at hy; exact h.lt y hy
    · intro y hy; rw [hcnt y] at hy
      have e : y ≠ x := fun e => by subst e; simp at hy
      simp [e] at hy
      exact h.keep_free a.q s3 y (R.not_mem_of_cnt (i := false) hy).2.2 hy
    · intro y hy
      rw [(s2 y).1]
      rcases List.mem_append.1 hy with e | e
      · exact h.qprev y e
      · simp at e; subst e; exact hfp
    · intro y; rw [(s2 y).2.1]; exact h.mark y
    · intro y; rw [(s2 y).2.2]; exact h.tc y
  · rw [if_neg (fun e => hf ((h.free_iff x).1 e)), if_neg hf]
    exact h

theorem qPoll_refines {w : LW} {a : AW} (h : R w a) :
    R (w.stepC .qPoll) (a.stepC w.n .qPoll) := by
  simp only [LW.stepC, AW.stepC]
  cases hl : a.q with
  | nil =>
    have hq := h.q
    rw [hl] at hq
    rw [qPoll_nil w.mem w.q hq]
    have ea : (⟨a.l0, a.l1, a.p, [], a.mark, a.tc, some none⟩ : AW) = { a with ret := some none } := by rw [hl]
    rw [ea]
    exact ⟨h.ll, h.p, h.size, h.q, h.cnt, h.lt, h.free, h.qprev, h.mark, h.tc, rfl⟩
  | cons x r =>
    have hq := h.q
    rw [hl] at hq
    obtain ⟨s1, s2, s3, s4, s5, s6, s7⟩ := qPoll_spec hq
    simp only []
    have hxq : x ∈ a.q := by rw [hl]; simp
    have hcnt : ∀ y, AW.cnt { a with q := r, mark := setOn a.mark [x] 0, ret := some (some x) } y + (if y = x then 1 else 0) = a.cnt y := by
      intro y
      simp only [AW.cnt, hl, List.count_cons]
      by_cases e : y = x
      · subst e; simp; omega
      · have : (x == y) = false := by simpa using fun e' => e e'.symm
        simp [this, e]
    have s7' : ∀ y, y ∉ [x] → (qPoll w.mem w.q).1 y = w.mem y := fun y hy => s7 y (by simpa using hy)
    refine ⟨?_, ?_, h.size, s2, ?_, ?_, ?_, ?_, ?_, ?_, by rw [s1]⟩
    · intro j
      exact h.keep_ll [x] s7' j (fun y hy => by
        simp only [List.mem_singleton]
        exact fun e => (h.disj_q hxq).1 j (e ▸ hy))
    · exact h.keep_p [x] s7' (fun y hy => by
        simp only [List.mem_singleton]
        exact fun e => (h.disj_q hxq).2 (e ▸ hy))
    · intro y; have := hcnt y; have := h.cnt y; omega
    · intro y hy; apply h.lt; have := hcnt y; omega
    · intro y hy
      by_cases e : y = x
      · subst e; exact ⟨s3, by rw [s6 y]; exact h.qprev y hxq⟩
      · have h0 : a.cnt y = 0 := by have := hcnt y; simp [e] at this; omega
        exact h.keep_free [x] s7' y (by simpa using e) h0
    · intro y hy
      rw [s6 y]
      exact h.qprev y (by rw [hl]; exact List.mem_cons_of_mem _ hy)
    · intro y
      simp only [setOn, List.mem_singleton]
      by_cases e : y = x
      · subst e; simpa using s4
      · simp only [e, if_false]; rw [s7 y e]; exact h.mark y
    · intro y
      simp only []
      by_cases e : y = x
      · subst e; rw [s5]; exact h.tc y
      · rw [s7 y e]; exact h.tc y

theorem qDrop_refines {w : LW} {a : AW} (h : R w a) :
    R (w.stepC .qDrop) (a.stepC w.n .qDrop) := by
  simp only [LW.stepC, AW.stepC]
  have hlen := h.len_le h.q.nodup (R.le_q a)
  obtain ⟨s1, s2, s3, s4, s5⟩ := qDrop_spec h.q (w.n + 1) hlen
  have hcnt : ∀ y, AW.cnt { a with q := [], mark := setOn a.mark a.q 0 } y + a.q.count y = a.cnt y := by
    intro y; simp only [AW.cnt, List.count_nil]; omega
  refine ⟨?_, ?_, h.size, ⟨by rw [s1]; rfl, by rw [s2]; rfl, List.nodup_nil⟩, ?_, ?_, ?_, by simp, ?_, ?_, h.ret⟩
  · intro j
    exact h.keep_ll a.q s5 j (fun y hy => (h.disj_l j hy).2.2)
  · exact h.keep_p a.q s5 (fun y hy => (h.disj_p hy).2)
  · intro y; have := hcnt y; have := h.cnt y; omega
  · intro y hy; apply h.lt; have := hcnt y; omega
  · intro y hy
    by_cases e : y ∈ a.q
    · exact ⟨(s3 y e).1, by rw [s4 y]; exact h.qprev y e⟩
    · have h0 : a.cnt y = 0 := by have := hcnt y; have := List.count_eq_zero.2 e; omega
      exact h.keep_free a.q s5 y e h0
  · intro y
    simp only [setOn]
    by_cases e : y ∈ a.q
    · simp only [e, if_true]; exact (s3 y e).2.1
    · simp only [e, if_false]; rw [s5 y e]; exact h.mark y
  · intro y
    simp only []
    by_cases e : y ∈ a.q
    · rw [(s3 y e).2.2]; exact h.tc y
    · rw [s5 y e]; exact h.tc y

/-! ### Writes that touch no link -/

theorem R.relink {w : LW} {a : AW} (h : R w a) (m' : Mem)
    (hl : ∀ y, (m' y).next = (w.mem y).next ∧ (m' y).prev = (w.mem y).prev) (a' : AW)
    (h0 : a'.l0 = a.l0) (h1 : a'.l1 = a.l1) (hp : a'.p = a.p) (hq : a'.q = a.q) (hr : a'.ret = a.ret)
    (hm : ∀ y, (m' y).mark = a'.mark y) (ht : ∀ y, (m' y).tc = a'.tc y) : R { w with mem := m' } a' := by
  have hg : ∀ j, a'.getL j = a.getL j := by intro j; cases j <;> simp [AW.getL, h0, h1]
  have hc : ∀ y, a'.cnt y = a.cnt y := by intro y; simp [AW.cnt, h0, h1, hp, hq]
  refine ⟨?_, ?_, by rw [hp]; exact h.size, ?_, ?_, ?_, ?_, ?_, hm, ht, by rw [hr]; exact h.ret⟩
  · intro j; rw [hg j]
    have : ({ w with mem := m' } : LW).getL j = w.getL j := by cases j <;> rfl
    rw [this]
    exact (h.ll j).congr (fun y _ => hl y)
  · rw [hp]; exact h.p.congr (fun y _ => hl y)
  · rw [hq]; exact ⟨SL_congr (fun y _ => (hl y).1) h.q.sl, h.q.last, h.q.nodup⟩
  · intro y; rw [hc y]; exact h.cnt y
  · intro y hy; rw [hc y] at hy; exact h.lt y hy
  · intro y hy; rw [hc y] at hy; rw [(hl y).1, (hl y).2]; exact h.free y hy
  · intro y hy; rw [hq] at hy; rw [(hl y).2]; exact h.qprev y hy

theorem mark_refines {w : LW} {a : AW} (h : R w a) (x mv : Nat) :
    R (w.stepC (.mark x mv)) (a.stepC w.n (.mark x mv)) := by
  simp only [LW.stepC, AW.stepC]
  by_cases hf : x < w.n ∧ mv < 4
  · rw [if_pos hf, if_pos hf]
    refine h.relink _ (fun y => by simp) _ rfl rfl rfl rfl rfl ?_ ?_
    · intro y
      simp only [setOn, List.mem_singleton]
      by_cases e : y = x
      · subst e; simp
      · simp only [e, if_false]; rw [setMark_mark_ne _ _ _ _ e]; exact h.mark y
    · intro y; simpa using h.tc y
  · rw [if_neg hf, if_neg hf]; exact h

theorem incTc_refines {w : LW} {a : AW} (h : R w a) (x : Nat) :
    R (w.stepC (.incTc x)) (a.stepC w.n (.incTc x)) := by
  simp only [LW.stepC, AW.stepC]
  by_cases hf : x < w.n
  · rw [if_pos hf, if_pos hf]
    refine h.relink _ (fun y => ?_) _ rfl rfl rfl rfl rfl ?_ ?_
    · by_cases e : y = x
      · subst e; simp
      · simp [upd_ne _ _ _ _ e]
    · intro y
      by_cases e : y = x
      · subst e; simpa using h.mark y
      · simpa [upd_ne _ _ _ _ e] using h.mark y
    · intro y
      by_cases e : y = x
      · subst e; simp [h.tc y]
      · simp [upd_ne _ _ _ _ e, e, h.tc y]
  · rw [if_neg hf, if_neg hf]; exact h

/-! ### The refinement theorem -/

theorem stepC_n (w : LW) (op : LOp) : (w.stepC op).n = w.n := by
  cases op <;> simp only [LW.stepC] <;> (try split) <;> simp

/-- **Every operation of `lists.rs` is the list operation of the specification.** -/
theorem step_refines {w : LW} {a : AW} (h : R w a) (op : LOp) : R (w.step op) (a.step w.n op) := by
  have h0 := h.clearRet
  unfold LW.step AW.step
  cases op with
  | llAdd i x => exact llAdd_refines h0 i x
  | llRemove i x => exact llRemove_refines h0 i x
  | llRemoveFirst i => exact llRemoveFirst_refines h0 i
  | llDrop i => exact llDrop_refines h0 i
  | pcAdd x => exact pcAdd_refines h0 x
  | pcRemove x => exact pcRemove_refines h0 x
  | pcRemoveFirst => exact pcRemoveFirst_refines h0
  | pcAppend i mv => exact pcAppend_refines h0 i mv
  | pcSwap i => exact pcSwap_refines h0 i
  | qAdd x => exact qAdd_refines h0 x
  | qPoll => exact qPoll_refines h0
  | qDrop => exact qDrop_refines h0
  | mark x mv => exact mark_refines h0 x mv
  | incTc x => exact incTc_refines h0 x

theorem step_n (w : LW) (op : LOp) : (w.step op).n = w.n := stepC_n _ op

/-- … hence after any sequence of operations. -/
theorem run_refines (n : Nat) (ops : List LOp) :
    R (ops.foldl LW.step { n := n }) (ops.foldl (AW.step n) {}) ∧ (ops.foldl LW.step { n := n }).n = n := by
  suffices H : ∀ (w : LW) (a : AW), R w a → w.n = n →
      R (ops.foldl LW.step w) (ops.foldl (AW.step n) a) ∧ (ops.foldl LW.step w).n = n from H _ _ (R.init n) rfl
  induction ops with
  | nil => intro w a h hn; exact ⟨h, hn⟩
  | cons op r ih =>
    intro w a h hn
    simp only [List.foldl_cons]
    have := step_refines h op
    rw [hn] at this
    exact ih _ _ this (by rw [step_n, hn])

end RustCc.Lists
