import RustCcModel.T1.Phase2
namespace T1

theorem foldl_rootEdge_nonroot_sub (ys : List Nat) :
    ∀ (s : TS), ∀ x ∈ (ys.foldl rootEdge s).nonroot, x ∈ s.nonroot := by
  induction ys with
  | nil => intro s x hx; exact hx
  | cons y ys ih =>
    intro s x hx
    simp only [List.foldl_cons] at hx
    exact rootEdge_nonroot_sub s y x (ih _ x hx)

/-- Finishing the object in progress: it joins the visited set. -/
theorem finish_P2 (h1 : Heap) (done : List Nat) (s : TS) (V R : List Nat) (x : Nat)
    (hinv : P2 h1 done s V (some x) (h1 x).edges R) :
    P2 h1 done s (x :: V) none [] R := by
  refine ⟨hinv.frame, hinv.nr, hinv.nrNodup, ?_, by simp, ?_, hinv.rootsOk, hinv.queueOk,
    hinv.queueNodup, by intro c hc; simp at hc⟩
  · intro u hu y hy
    rcases List.mem_cons.1 hu with h | h
    · subst h; exact hinv.seenOk y hy
    · exact hinv.vis u h y hy
  · intro z hz
    rcases hinv.cover z hz with h | h | h | h | h
    · exact Or.inl (List.mem_cons_of_mem _ h)
    · exact Or.inr (Or.inl h)
    · exact Or.inr (Or.inr (Or.inl h))
    · simp at h; subst h; exact Or.inl (by simp)
    · exact Or.inr (Or.inr (Or.inr (Or.inr h)))

theorem rootObj_P2_of_focus (h1 : Heap) (done : List Nat) (s : TS) (V R : List Nat) (x : Nat)
    (hinv : P2 h1 done s V (some x) [] R) :
    P2 h1 done (rootObj s x) (x :: V) none [] R := by
  unfold rootObj
  have h2 := unmark_P2 h1 done s V R x hinv
  have h3 := foldl_rootEdge_P2 h1 done V (some x) R (s.h x).edges (unmark s x) [] h2
  simp only [List.nil_append] at h3
  apply finish_P2
  rw [← (hinv.frame x).2.2]
  exact h3

/-- Root-tracing the head of the remaining-roots list. -/
theorem step_root (h1 : Heap) (done : List Nat) (s : TS) (V R : List Nat) (x : Nat)
    (hinv : P2 h1 done s V none [] (x :: R)) :
    P2 h1 done (rootObj s x) (x :: V) none [] R := by
  apply rootObj_P2_of_focus
  have hxr : (s.h x).rc ≠ (s.h x).tc := hinv.rootsOk x (by simp)
  refine ⟨hinv.frame, hinv.nr, hinv.nrNodup, hinv.vis, hinv.seenOk, ?_,
    fun z hz => hinv.rootsOk z (List.mem_cons_of_mem _ hz), hinv.queueOk, hinv.queueNodup, ?_⟩
  · intro z hz
    rcases hinv.cover z hz with h | h | h | h | h
    · exact Or.inl h
    · rcases List.mem_cons.1 h with h | h
      · exact Or.inr (Or.inr (Or.inr (Or.inl (by rw [h]))))
      · exact Or.inr (Or.inl h)
    · exact Or.inr (Or.inr (Or.inl h))
    · simp at h
    · exact Or.inr (Or.inr (Or.inr (Or.inr h)))
  · intro c hc; simp at hc; subst hc
    exact ⟨fun h => hxr (hinv.queueOk _ h).2, fun h => hxr ((hinv.nr _).1 h).2⟩

/-- Root-tracing the head of the queue. -/
theorem step_rqueue (h1 : Heap) (done : List Nat) (s : TS) (V : List Nat) (x : Nat) (q : List Nat)
    (hq : s.queue = x :: q) (hinv : P2 h1 done s V none [] []) :
    P2 h1 done (rootObj { s with queue := q } x) (x :: V) none [] [] := by
  apply rootObj_P2_of_focus
  have hnodup : (x :: q).Nodup := hq ▸ hinv.queueNodup
  have hxq := hinv.queueOk x (by simp [hq])
  refine ⟨hinv.frame, hinv.nr, hinv.nrNodup, hinv.vis, hinv.seenOk, ?_, hinv.rootsOk,
    fun z hz => hinv.queueOk z (by rw [hq]; exact List.mem_cons_of_mem _ hz),
    (List.nodup_cons.1 hnodup).2, ?_⟩
  · intro z hz
    rcases hinv.cover z hz with h | h | h | h | h
    · exact Or.inl h
    · simp at h
    · rw [hq] at h
      rcases List.mem_cons.1 h with h | h
      · exact Or.inr (Or.inr (Or.inr (Or.inl (by rw [h]))))
      · exact Or.inr (Or.inr (Or.inl h))
    · simp at h
    · exact Or.inr (Or.inr (Or.inr (Or.inr h)))
  · intro c hc; simp at hc; subst hc
    refine ⟨(List.nodup_cons.1 hnodup).1, fun h => ?_⟩
    have := ((hinv.nr _).1 h).1
    rw [hxq.1] at this; cases this

theorem rootsList_P2 (h1 : Heap) (done : List Nat) (R : List Nat) :
    ∀ (s : TS) (V : List Nat), P2 h1 done s V none [] R →
      ∃ V', P2 h1 done (rootsList s R) V' none [] [] := by
  induction R with
  | nil => intro s V h; exact ⟨V, h⟩
  | cons x R ih => intro s V h; exact ih _ _ (step_root h1 done s V R x h)

theorem rootsQueue_P2 (h1 : Heap) (done : List Nat) (fuel : Nat) :
    ∀ (s : TS) (V : List Nat), P2 h1 done s V none [] [] →
      ∃ V', P2 h1 done (rootsQueue fuel s) V' none [] [] := by
  induction fuel with
  | zero => intro s V h; exact ⟨V, h⟩
  | succ n ih =>
    intro s V h
    unfold rootsQueue
    cases hq : s.queue with
    | nil => simp only []; exact ⟨V, h⟩
    | cons x q => simp only []; exact ih _ _ (step_rqueue h1 done s V x q hq h)

/-- The state at the end of a completed counting phase starts the root phase. -/
theorem init_P2 (s1 : TS) (done : List Nat) (hinv : P1 s1 done none [] []) (hq : s1.queue = []) :
    P2 s1.h done { s1 with root := [] } [] none [] s1.root := by
  refine ⟨fun z => ⟨rfl, rfl, rfl⟩, ?_, hinv.nonrootNodup, by simp, by simp, ?_, ?_, by simp [hq],
    by simp [hq], by intro c hc; simp at hc⟩
  · intro x; simp only; rw [hinv.nonroot x, hinv.mList x]
  · intro x hx
    by_cases hr : (s1.h x).rc = (s1.h x).tc
    · exact Or.inr (Or.inr (Or.inr (Or.inr ((hinv.nonroot x).2 ⟨hx, hr⟩))))
    · exact Or.inr (Or.inl ((hinv.root x).2 ⟨hx, hr⟩))
  · intro x hx; exact ((hinv.root x).1 hx).2

end T1
