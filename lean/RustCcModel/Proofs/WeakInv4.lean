import RustCcModel.Proofs.WeakInv3
/-! Building blocks: how each primitive move of a `Weak` (and each primitive that touches a side record or a box)
transforms `WeakH`. -/
namespace RustCc
open World

variable {ex : Bool}

/-! ### `wrefs` is not changed by the helpers that move no `Weak` -/

@[simp] theorem wrefs_emit (w : World) (e : Event) (x : Id) : wrefs (w.emit e) x = wrefs w x := rfl
@[simp] theorem wrefs_updMeta (w : World) (y : Id) (F) (x : Id) : wrefs (w.updMeta y F) x = wrefs w x := rfl
@[simp] theorem wrefs_setH (w : World) (k v) (x : Id) : wrefs (w.setH k v) x = wrefs w x := rfl
@[simp] theorem wrefs_freeBox (w : World) (y x : Id) : wrefs (w.freeBox y) x = wrefs w x :=
  wrefs_congr _ _ x rfl rfl rfl rfl rfl (fun u _ => by simp)
@[simp] theorem wrefs_dropMetadata (w : World) (y x : Id) : wrefs (w.dropMetadata y) x = wrefs w x :=
  wrefs_congr _ _ x (by simp) (by simp) (by simp) (by simp) (by simp) (fun u _ => by simp)
@[simp] theorem wrefs_initMeta (w : World) (y x : Id) : wrefs (w.initMeta y) x = wrefs w x :=
  wrefs_congr _ _ x (by simp) (by simp) (by simp) (by simp) (by simp) (fun u _ => by simp)
@[simp] theorem wrefs_weakDrop (w : World) (r : WRef) (x : Id) : wrefs (w.weakDrop r) x = wrefs w x :=
  wrefs_congr _ _ x (by simp) (by simp) (by simp) (by simp) (by simp) (fun u _ => by simp)
@[simp] theorem wrefs_removeFromList (w : World) (y x : Id) : wrefs (w.removeFromList y) x = wrefs w x :=
  wrefs_congr _ _ x (by simp) (by simp) (by simp) (by simp) (by simp) (fun u _ => by simp)

/-! ### The master lemma: one identity changes, the others do not get worse -/

theorem WeakH.step1 {w w' : World} {E E' : List Id} (h : WeakH ex w E) (y : Id)
    (hr : ∀ x, x ≠ y → wrefs w' x + E'.count x = wrefs w x + E.count x)
    (hn : w.next ≤ w'.next)
    (hmo : ∀ x, x ≠ y → w'.metas x = w.metas x)
    (hhm : ∀ x, x ≠ y → (w'.heap x).hasMeta = (w.heap x).hasMeta)
    (hbl : ∀ x, x ≠ y → (w'.heap x).boxLive = true → (w.heap x).boxLive = true)
    (hy : MOK (w'.metas y) (w'.heap y).hasMeta (w'.heap y).boxLive (wrefs w' y + E'.count y))
    (hf : w'.next ≤ y → (w'.metas y).weak = 0)
    (hgy : ex = true → (w'.metas y).weak ≤ wrefs w' y + E'.count y) : WeakH ex w' E' := by
  refine ⟨fun x => ?_, fun x hx => ?_, fun e x => ?_⟩
  · by_cases hxy : x = y
    · subst hxy; exact hy
    · have h0 := (h.ok x).mono (Nat.le_of_eq (hr x hxy))
      rw [hmo x hxy, hhm x hxy]
      exact ⟨h0.le, h0.wl, h0.rel, h0.acc, fun e hb => h0.box e (hbl x hxy hb), h0.nm⟩
  · by_cases hxy : x = y
    · subst hxy; exact hf hx
    · rw [hmo x hxy]; exact h.fresh x (Nat.le_trans hn hx)
  · by_cases hxy : x = y
    · subst hxy; exact hgy e
    · rw [hmo x hxy, hr x hxy]; exact h.ge e x

/-- Exchange of pointers between the in-flight list and a table / stash / weak field. -/
theorem WeakH.exchange {w w' : World} {E : List Id} (inn out : List Id) (h : WeakH ex w (inn ++ E))
    (hr : ∀ x, wrefs w' x + out.count x = wrefs w x + inn.count x)
    (hm : w'.metas = w.metas) (hn : w'.next = w.next)
    (hhm : ∀ u, (w'.heap u).hasMeta = (w.heap u).hasMeta)
    (hbl : ∀ u, (w'.heap u).boxLive = (w.heap u).boxLive) : WeakH ex w' (out ++ E) := by
  refine ⟨fun x => ?_, fun x hx => ?_, fun e x => ?_⟩
  · rw [hm, hhm, hbl]
    refine (h.ok x).mono ?_
    have := hr x
    simp only [List.count_append]; omega
  · rw [hm]; exact h.fresh x (by rw [← hn]; exact hx)
  · rw [hm]
    have := h.ge e x
    have := hr x
    simp only [List.count_append] at *; omega

/-- The same when pointers may get lost on the way (not exact). -/
theorem WeakH.exchange_le {w w' : World} {E : List Id} (inn out : List Id) (h : WeakH ex w (inn ++ E))
    (hr : ∀ x, wrefs w' x + out.count x ≤ wrefs w x + inn.count x)
    (hm : w'.metas = w.metas) (hn : w'.next = w.next)
    (hhm : ∀ u, (w'.heap u).hasMeta = (w.heap u).hasMeta)
    (hbl : ∀ u, (w'.heap u).boxLive = (w.heap u).boxLive) : WeakH false w' (out ++ E) := by
  refine ⟨fun x => ?_, fun x hx => ?_, fun e => nomatch e⟩
  · rw [hm, hhm, hbl]
    refine (h.ok x).mono ?_
    have := hr x
    simp only [List.count_append]; omega
  · rw [hm]; exact h.fresh x (by rw [← hn]; exact hx)

/-! ### Boxes and side records -/

theorem WeakH.freeBox {w : World} {E : List Id} (h : WeakH ex w E) (y : Id) : WeakH ex (w.freeBox y) E := by
  refine h.step1 (w' := w.freeBox y) (E' := E) y (fun x _ => by simp) (Nat.le_refl _) (fun x _ => rfl) (fun x _ => by simp)
    (fun x hxy hb => by rw [freeBox_boxLive] at hb; simpa [hxy] using hb) ?_ (fun hy => h.fresh y hy)
    (fun e => by simpa using h.ge e y)
  have := (h.ok y).unbox
  rw [freeBox_boxLive]; simpa using this

theorem dropMetadata_metas_same (w : World) (y : Id) :
    (w.dropMetadata y).metas y = (if (w.heap y).hasMeta = true then
      (if (w.metas y).weak = 0 then { w.metas y with live := false, accessible := false } else { w.metas y with accessible := false })
      else w.metas y) := by
  unfold dropMetadata
  split
  · split
    · simp [updMeta, emit, Metas.set]
    · simp [updMeta, Metas.set]
  · rfl

theorem dropMetadata_metas_other (w : World) (y x : Id) (h : x ≠ y) : (w.dropMetadata y).metas x = w.metas x := by
  unfold dropMetadata
  split
  · split <;> simp [updMeta, emit, Metas.set, h]
  · rfl

/-- `drop_metadata` immediately followed by the release of the box. -/
theorem WeakH.dropFree {w : World} {E : List Id} (h : WeakH ex w E) (y : Id) : WeakH ex ((w.dropMetadata y).freeBox y) E := by
  refine h.step1 (w' := (w.dropMetadata y).freeBox y) (E' := E) y (fun x _ => by simp) (by simp)
    (fun x hxy => by simp [dropMetadata_metas_other w y x hxy]) (fun x _ => by simp)
    (fun x hxy hb => by rw [freeBox_boxLive] at hb; simpa [hxy] using hb) ?_ ?_ ?_
  · have := (h.ok y).dropMeta
    rw [freeBox_boxLive]
    simp only [wk_freeBox_metas, wk_freeBox_hasMeta, wk_dropMetadata_hasMeta, wrefs_freeBox, wrefs_dropMetadata, if_pos]
    rw [dropMetadata_metas_same]
    exact this
  · intro hy
    have hy' : w.next ≤ y := by simpa using hy
    have h0 := h.fresh y hy'
    simp only [wk_freeBox_metas]
    rw [dropMetadata_metas_same]
    repeat' split
    all_goals exact h0
  · intro e
    have hg := h.ge e y
    simp only [wk_freeBox_metas, wrefs_freeBox, wrefs_dropMetadata]
    rw [dropMetadata_metas_same]
    repeat' split
    all_goals exact hg

/-- The release of a box, with or without the feature `weak-ptrs`. -/
theorem WeakH.freeStep (c : Cfg) {w : World} {E : List Id} (h : WeakH ex w E) (y : Id) :
    WeakH ex ((if c.weak then w.dropMetadata y else w).freeBox y) E := by
  split
  · exact h.dropFree y
  · exact h.freeBox y

theorem initMeta_metas_same (w : World) (y : Id) :
    (w.initMeta y).metas y = (if (w.heap y).hasMeta = true then w.metas y else { weak := 0, accessible := true, live := true }) := by
  unfold initMeta
  split
  · rfl
  · simp [updMeta, upd, Metas.set]

theorem initMeta_metas_other (w : World) (y x : Id) (h : x ≠ y) : (w.initMeta y).metas x = w.metas x := by
  unfold initMeta
  split
  · rfl
  · simp [updMeta, upd, Metas.set, h]

theorem initMeta_hasMeta_same (w : World) (y : Id) : ((w.initMeta y).heap y).hasMeta = true := by
  unfold initMeta
  split
  · assumption
  · simp [updMeta, upd]

theorem initMeta_hasMeta_other (w : World) (y x : Id) (h : x ≠ y) : ((w.initMeta y).heap x).hasMeta = (w.heap x).hasMeta := by
  unfold initMeta
  split
  · rfl
  · simp [updMeta, upd, Heap.set, h]

/-- `get_or_init_metadata`. -/
theorem WeakH.initMeta {w : World} {E : List Id} (h : WeakH ex w E) (y : Id) : WeakH ex (w.initMeta y) E := by
  refine h.step1 (w' := w.initMeta y) (E' := E) y (fun x _ => by simp) (by simp) (fun x hxy => initMeta_metas_other w y x hxy)
    (fun x hxy => initMeta_hasMeta_other w y x hxy) (fun x _ hb => by simpa using hb) ?_ ?_ ?_
  · have := (h.ok y).init
    rw [initMeta_metas_same, initMeta_hasMeta_same, initMeta_boxLive, wrefs_initMeta]
    exact this
  · intro hy
    have hy' : w.next ≤ y := by simpa using hy
    rw [initMeta_metas_same]
    split
    · exact h.fresh y hy'
    · rfl
  · intro e
    rw [initMeta_metas_same, wrefs_initMeta]
    split
    · exact h.ge e y
    · exact Nat.zero_le _

/-- After `get_or_init_metadata` on a live box the record is there. -/
theorem WeakH.initMeta_live {w : World} {E : List Id} (h : WeakH ex w E) (y : Id) (hb : (w.heap y).boxLive = true) :
    ((w.initMeta y).metas y).live = true := by
  have h1 := (h.initMeta y).ok y
  exact (h1.acc (h1.box (initMeta_hasMeta_same w y) (by simpa using hb))).1

/-- The weak count goes up by `k`: `k` new `Weak`s are in flight. -/
theorem WeakH.incr {w : World} {E : List Id} (h : WeakH ex w E) (y : Id) (k : Nat) (hl : (w.metas y).live = true) (hy : y < w.next) :
    WeakH ex (w.updMeta y fun m => { m with weak := m.weak + k }) (List.replicate k y ++ E) := by
  refine h.step1 (w' := w.updMeta y fun m => { m with weak := m.weak + k }) (E' := List.replicate k y ++ E) y (fun x hxy => ?_)
    (Nat.le_refl _) (fun x hxy => updMeta_metas_other w y x _ hxy) (fun x _ => rfl)
    (fun x _ hb => hb) ?_ (fun hge => absurd hy (Nat.not_lt.2 hge)) ?_
  · rw [wrefs_updMeta, List.count_append, count_replicate_self]
    have : ¬ y = x := fun e => hxy e.symm
    simp [this]
  · rw [updMeta_metas_same, wrefs_updMeta, List.count_append, count_replicate_self]
    have := (h.ok y).incr k hl
    simp only [if_pos]
    have e : wrefs w y + (k + E.count y) = wrefs w y + E.count y + k := by omega
    rw [e]; exact this
  · intro e
    rw [updMeta_metas_same, wrefs_updMeta, List.count_append, count_replicate_self]
    have := h.ge e y
    simp only [if_pos]
    show (w.metas y).weak + k ≤ _
    omega

theorem weakDrop_metas_same (w : World) (y : Id) :
    (w.weakDrop (.to y)).metas y = (if (w.metas y).weak - 1 = 0 ∧ (!(w.metas y).accessible) = true then
      { w.metas y with weak := (w.metas y).weak - 1, live := false } else { w.metas y with weak := (w.metas y).weak - 1 }) := by
  unfold weakDrop
  simp only [updMeta_metas_same]
  split <;> simp [updMeta, emit, Metas.set]

theorem weakDrop_metas_other (w : World) (y x : Id) (h : x ≠ y) : (w.weakDrop (.to y)).metas x = w.metas x := by
  unfold weakDrop
  simp only
  split <;> simp [updMeta, emit, Metas.set, h]

/-- `Weak::drop` of a pointer in flight. -/
theorem WeakH.weakDrop {w : World} {E : List Id} {y : Id} (h : WeakH ex w (y :: E)) : WeakH ex (w.weakDrop (.to y)) E := by
  refine h.step1 (w' := w.weakDrop (.to y)) (E' := E) y (fun x hxy => ?_) (by simp) (fun x hxy => weakDrop_metas_other w y x hxy)
    (fun x _ => by simp) (fun x _ hb => by simpa using hb) ?_ ?_ ?_
  · rw [wrefs_weakDrop, List.count_cons]
    have : ¬ y = x := fun e => hxy e.symm
    simp [this]
  · have h0 := h.ok y
    rw [List.count_cons_self] at h0
    have := MOK.drop (n := wrefs w y + E.count y) h0
    rw [weakDrop_metas_same, wrefs_weakDrop]
    simpa using this
  · intro hge
    have hge' : w.next ≤ y := by simpa using hge
    have h0 := h.fresh y hge'
    rw [weakDrop_metas_same]
    split <;> (show (w.metas y).weak - 1 = 0; omega)
  · intro e
    have hg := h.ge e y
    rw [List.count_cons_self] at hg
    rw [weakDrop_metas_same, wrefs_weakDrop]
    split <;> (show (w.metas y).weak - 1 ≤ _; omega)

theorem WeakH.weakDropR {w : World} {E : List Id} (r : WRef) (h : WeakH ex w (r.ids ++ E)) : WeakH ex (w.weakDrop r) E := by
  cases r with
  | dangling => exact h
  | to y => exact WeakH.weakDrop h

/-- `j` of the `Weak`s in flight are dropped, at least one more stays. -/
theorem WeakH.decr {w : World} {E : List Id} {y : Id} {j : Nat} (h : WeakH ex w (List.replicate j y ++ y :: E)) :
    WeakH ex (w.updMeta y fun m => { m with weak := m.weak - j }) (y :: E) := by
  refine h.step1 (w' := w.updMeta y fun m => { m with weak := m.weak - j }) (E' := y :: E) y (fun x hxy => ?_) (Nat.le_refl _)
    (fun x hxy => updMeta_metas_other w y x _ hxy) (fun x _ => rfl)
    (fun x _ hb => hb) ?_ ?_ ?_
  · rw [wrefs_updMeta, List.count_append, count_replicate_self]
    have : ¬ y = x := fun e => hxy e.symm
    simp [this]
  · have h0 := h.ok y
    rw [List.count_append, count_replicate_self, List.count_cons_self] at h0
    simp only [if_pos] at h0
    have e : wrefs w y + (j + (E.count y + 1)) = wrefs w y + E.count y + 1 + j := by omega
    rw [e] at h0
    rw [updMeta_metas_same, wrefs_updMeta, List.count_cons_self]
    exact h0.decr
  · intro hge
    have h0 := h.fresh y hge
    rw [updMeta_metas_same]
    show (w.metas y).weak - j = 0
    omega
  · intro e
    have hg := h.ge e y
    rw [List.count_append, count_replicate_self, List.count_cons_self] at hg
    simp only [if_pos] at hg
    rw [updMeta_metas_same, wrefs_updMeta, List.count_cons_self]
    show (w.metas y).weak - j ≤ _
    omega

/-! ### Tables, stash, weak fields -/

theorem WeakH.setW {w : World} {E : List Id} (k : Nat) (v : Option WRef) (h : WeakH ex w (wEntry v ++ E)) (hk : k < w.W.length) :
    WeakH ex (w.setW k v) (wEntry (w.getW k) ++ E) :=
  h.exchange _ _ (fun x => wrefs_setW w k v x hk) rfl rfl (fun _ => rfl) (fun _ => rfl)

theorem WeakH.setK {w : World} {E : List Id} (k : Nat) (v : Option (Id × Nat × Nat)) (h : WeakH ex w (kEntry v ++ E)) (hk : k < w.K.length) :
    WeakH ex (w.setK k v) (kEntry (w.getK k) ++ E) :=
  h.exchange _ _ (fun x => wrefs_setK w k v x hk) rfl rfl (fun _ => rfl) (fun _ => rfl)

theorem getW_lt {w : World} {k : Nat} {r : WRef} (h : w.getW k = some r) : k < w.W.length := by
  cases Nat.lt_or_ge k w.W.length with
  | inl h' => exact h'
  | inr hge => simp [World.getW, List.getD_eq_getElem?_getD, List.getElem?_eq_none hge] at h

theorem getK_lt {w : World} {k : Nat} {r : Id × Nat × Nat} (h : w.getK k = some r) : k < w.K.length := by
  cases Nat.lt_or_ge k w.K.length with
  | inl h' => exact h'
  | inr hge => simp [World.getK, List.getD_eq_getElem?_getD, List.getElem?_eq_none hge] at h

theorem WeakH.toStash {w : World} {E : List Id} {y : Id} {n : Nat} (r : Ret) (h : WeakH ex w (List.replicate n y ++ E)) :
    WeakH ex { w with ret := r, wstash := fun z => if z = y then w.wstash y + n else w.wstash z } E := by
  have := h.exchange (w' := { w with ret := r, wstash := fun z => if z = y then w.wstash y + n else w.wstash z }) _ [] (fun x => by
      have h2 := wrefs_wstash w (fun z => if z = y then w.wstash y + n else w.wstash z) r x
      rw [count_replicate_self]
      by_cases hxy : y = x
      · subst hxy; simp at h2 ⊢; omega
      · have hxy' : ¬ x = y := fun e => hxy e.symm
        simp [hxy, hxy'] at h2 ⊢; omega) rfl rfl (fun _ => rfl) (fun _ => rfl)
  simpa using this

theorem WeakH.fromStash {w : World} {E : List Id} (h : WeakH ex w E) (y : Id) (k : Nat) (r : Ret) (hk : k ≤ w.wstash y) :
    WeakH ex { w with ret := r, wstash := fun z => if z = y then w.wstash y - k else w.wstash z } (List.replicate k y ++ E) := by
  refine WeakH.exchange (w := w) [] _ (by simpa using h) (fun x => ?_) rfl rfl (fun _ => rfl) (fun _ => rfl)
  have h2 := wrefs_wstash w (fun z => if z = y then w.wstash y - k else w.wstash z) r x
  rw [count_replicate_self]
  by_cases hxy : y = x
  · subst hxy; simp at h2 ⊢; omega
  · have hxy' : ¬ x = y := fun e => hxy e.symm
    simp [hxy, hxy'] at h2 ⊢; omega

/-- Update of the weak fields of an allocated object: the `inn` pointers come from the in-flight list, the `out` pointers go
there. -/
theorem WeakH.updWslots {w : World} {E : List Id} (t : Id) (F : Obj → Obj) (inn out : List Id)
    (h : WeakH ex w (inn ++ E)) (ht : t < w.next)
    (hF : ∀ x, (optIds (F (w.heap t)).wslots).count x + out.count x = (optIds (w.heap t).wslots).count x + inn.count x)
    (hhm : (F (w.heap t)).hasMeta = (w.heap t).hasMeta) (hbl : (F (w.heap t)).boxLive = (w.heap t).boxLive) :
    WeakH ex (w.upd t F) (out ++ E) := by
  refine h.exchange inn out (fun x => ?_) rfl rfl (fun u => ?_) (fun u => ?_)
  · have h1 := wrefs_upd w t F x ht
    have h2 := hF x
    omega
  · by_cases hu : u = t
    · subst hu; simpa using hhm
    · simp [upd, Heap.set, hu]
  · by_cases hu : u = t
    · subst hu; simpa using hbl
    · simp [upd, Heap.set, hu]

theorem WeakH.updWslots_le {w : World} {E : List Id} (t : Id) (F : Obj → Obj) (inn out : List Id)
    (h : WeakH ex w (inn ++ E)) (ht : t < w.next)
    (hF : ∀ x, (optIds (F (w.heap t)).wslots).count x + out.count x ≤ (optIds (w.heap t).wslots).count x + inn.count x)
    (hhm : (F (w.heap t)).hasMeta = (w.heap t).hasMeta) (hbl : (F (w.heap t)).boxLive = (w.heap t).boxLive) :
    WeakH false (w.upd t F) (out ++ E) := by
  refine h.exchange_le inn out (fun x => ?_) rfl rfl (fun u => ?_) (fun u => ?_)
  · have h1 := wrefs_upd w t F x ht
    have h2 := hF x
    omega
  · by_cases hu : u = t
    · subst hu; simpa using hhm
    · simp [upd, Heap.set, hu]
  · by_cases hu : u = t
    · subst hu; simpa using hbl
    · simp [upd, Heap.set, hu]

/-! ### Allocation -/

/-- Allocation of a box without weak fields set and without a side record. -/
theorem WeakH.alloc {w w' : World} {E : List Id} (h : WeakH ex w E) (o : Obj) (hacc : (w.metas w.next).accessible = false)
    (hn : w'.next = w.next + 1) (hh : w'.heap = w.heap.set w.next o) (hW : w'.W = w.W) (hs : w'.wstash = w.wstash) (hK : w'.K = w.K)
    (hm : w'.metas = w.metas) (hc : cycs w'.stack = cycs w.stack) (ho : optIds o.wslots = []) (hom : o.hasMeta = false) :
    WeakH ex w' E := by
  have hr : ∀ x, wrefs w' x = wrefs w x := by
    intro x
    unfold wrefs
    rw [hW, hs, hK, hc, wfieldRefs_alloc w w' o x hn hh ho]
  refine h.step1 (w' := w') (E' := E) w.next (fun x _ => by rw [hr]) (by rw [hn]; exact Nat.le_succ _) (fun x _ => by rw [hm])
    (fun x hx => by rw [hh, Heap.set_other _ _ _ _ hx]) (fun x hx hb => by rw [hh, Heap.set_other _ _ _ _ hx] at hb; exact hb) ?_ ?_
    (fun e => by rw [hm, hr]; exact h.ge e w.next)
  · have h0 := h.ok w.next
    have hz := h.fresh w.next (Nat.le_refl _)
    rw [hm, hh, Heap.set_same, hr, hom]
    exact ⟨h0.le, h0.wl, h0.rel, fun ha => (by rw [hacc] at ha; cases ha), fun e => (by cases e), fun _ => hz⟩
  · intro _; rw [hm]; exact h.fresh w.next (Nat.le_refl _)

/-- Allocation of the box of `new_cyclic`: the side record is created with weak count 1, that `Weak` is in flight. -/
theorem WeakH.allocCyc {w w' : World} {E : List Id} (h : WeakH ex w E) (o : Obj)
    (hn : w'.next = w.next + 1) (hh : w'.heap = w.heap.set w.next o) (hW : w'.W = w.W) (hs : w'.wstash = w.wstash) (hK : w'.K = w.K)
    (hm : w'.metas = w.metas.set w.next { weak := 1, accessible := true, live := true }) (hc : cycs w'.stack = cycs w.stack)
    (ho : optIds o.wslots = []) (hom : o.hasMeta = true) :
    WeakH ex w' (w.next :: E) := by
  have hr : ∀ x, wrefs w' x = wrefs w x := by
    intro x
    unfold wrefs
    rw [hW, hs, hK, hc, wfieldRefs_alloc w w' o x hn hh ho]
  refine h.step1 (w' := w') (E' := w.next :: E) w.next (fun x hx => ?_) (by rw [hn]; exact Nat.le_succ _)
    (fun x hx => by rw [hm]; simp [Metas.set, hx])
    (fun x hx => by rw [hh, Heap.set_other _ _ _ _ hx]) (fun x hx hb => by rw [hh, Heap.set_other _ _ _ _ hx] at hb; exact hb) ?_ ?_ ?_
  · rw [hr, List.count_cons]
    have : ¬ w.next = x := fun e => hx e.symm
    simp [this]
  · have h0 := h.ok w.next
    have hz := h.fresh w.next (Nat.le_refl _)
    have hle := h0.le
    rw [hm, hh, Heap.set_same, hr, hom, List.count_cons_self]
    simp only [Metas.set, if_pos]
    exact ⟨by show _ ≤ 1; omega, fun _ => rfl, fun _ => Or.inl rfl, fun _ => ⟨rfl, rfl⟩, fun _ _ => rfl, fun e => by cases e⟩
  · intro hge; rw [hn] at hge; exact absurd hge (Nat.not_succ_le_self _)
  · intro e
    rw [hm, hr, List.count_cons_self]
    simp only [Metas.set, if_pos]
    show 1 ≤ _
    omega

end RustCc
