//! Non-program probes: exhaustive counter-word table (C16), policy functions (C15).

use rust_cc::verif_hooks as hooks;
use std::io::{BufRead, Write};

fn b(x: bool) -> u8 {
    x as u8
}

/// Every operation of `CounterMarker` / `WeakCounterMarker` on every 16-bit word.
pub fn words() {
    use hooks::CounterOp as C;
    let out = std::io::stdout();
    let mut out = std::io::BufWriter::new(out.lock());
    let reserved = |w: u32| (w & 0x3FFF) == 0x3FFF;
    // counter word operations (the crate debug-asserts that the count is not the reserved value)
    let cops: [(&str, Option<C>); 7] = [
        ("g", None),
        ("ic", Some(C::IncrementCounter)),
        ("dc", Some(C::DecrementCounter)),
        ("sf1", Some(C::SetFinalized(true))),
        ("sf0", Some(C::SetFinalized(false))),
        ("sm1", Some(C::SetAllocatedForMetadata(true))),
        ("sm0", Some(C::SetAllocatedForMetadata(false))),
    ];
    for (name, op) in cops.iter() {
        for w in 0u32..65536 {
            if reserved(w) {
                continue;
            }
            let v = hooks::counter_apply(0, w as u16, *op);
            let _ = writeln!(out, "{} {} {} {} {} {} {}", name, w, v.counter_word, b(v.failed), v.counter, b(!v.needs_finalization), b(v.has_allocated_for_metadata));
        }
    }
    let tops: [(&str, Option<C>, bool); 9] = [
        ("gt", None, false),
        ("it", Some(C::IncrementTracingCounter), true),
        ("rt", Some(C::ResetTracingCounter), true),
        ("sd1", Some(C::SetDropped(true)), false),
        ("sd0", Some(C::SetDropped(false)), false),
        ("m0", Some(C::MarkNonMarked), false),
        ("m1", Some(C::MarkPossibleCycles), false),
        ("m2", Some(C::MarkInList), false),
        ("m3", Some(C::MarkInQueue), false),
    ];
    for (name, op, skip_reserved) in tops.iter() {
        for w in 0u32..65536 {
            if *skip_reserved && reserved(w) {
                continue;
            }
            let v = hooks::counter_apply(w as u16, 1, *op);
            let tc = if v.is_dropped { "r".to_string() } else { v.tracing_counter.to_string() };
            let _ = writeln!(out, "{} {} {} {} {} {} {} {} {}", name, w, v.tracing_word, b(v.failed), tc, v.mark, b(v.is_dropped), b(v.is_not_marked), b(v.is_in_list_or_queue));
        }
    }
    #[cfg(feature = "weak")]
    {
        use hooks::WeakCounterOp as W;
        let wops: [(&str, Option<W>); 5] = [
            ("gw", None),
            ("iw", Some(W::IncrementCounter)),
            ("dw", Some(W::DecrementCounter)),
            ("sa1", Some(W::SetAccessible(true))),
            ("sa0", Some(W::SetAccessible(false))),
        ];
        for (name, op) in wops.iter() {
            for w in 0u32..65536 {
                let (nw, failed, cnt, acc) = hooks::weak_counter_apply(w as u16, *op);
                let _ = writeln!(out, "{} {} {} {} {} {}", name, w, nw, b(failed), cnt, b(acc));
            }
        }
        let (t, c) = hooks::counter_new(false);
        let (_, cf) = hooks::counter_new(true);
        let _ = writeln!(out, "new {} {} {} {} {}", t, c, cf, hooks::weak_counter_new(true), hooks::weak_counter_new(false));
    }
}

/// `adjust <thr> <pct bits hex> <alloc>` / `should <auto> <thr> <bufthr|none> <alloc> <buffered>` per line.
#[cfg(feature = "auto")]
pub fn policy() {
    use rust_cc::config::Config;
    let stdin = std::io::stdin();
    let out = std::io::stdout();
    let mut out = std::io::BufWriter::new(out.lock());
    for line in stdin.lock().lines() {
        let line = line.unwrap();
        let t: Vec<&str> = line.split_whitespace().collect();
        match t.as_slice() {
            ["adjust", thr, bits, alloc] => {
                let thr: usize = thr.parse().unwrap();
                let p = f64::from_bits(u64::from_str_radix(bits, 16).unwrap());
                let alloc: usize = alloc.parse().unwrap();
                let _ = writeln!(out, "{}", Config::verif_adjust(thr, p, alloc));
            }
            ["should", auto, thr, bt, alloc, buffered] => {
                let bt = if *bt == "none" { None } else { std::num::NonZeroUsize::new(bt.parse().unwrap()) };
                let r = Config::verif_should_collect(*auto == "1", thr.parse().unwrap(), bt, alloc.parse().unwrap(), buffered.parse().unwrap());
                let _ = writeln!(out, "{}", b(r));
            }
            _ => {
                let _ = writeln!(out, "bad");
            }
        }
    }
}

#[cfg(not(feature = "auto"))]
pub fn policy() {
    println!("no-auto");
}

/// `lists` mode: one case per line, `<n> <op> <op> ...`; the real `LinkedList` / `PossibleCycles` / `LinkedQueue` run the
/// operations on scratch boxes (hook `lists_run`), the answer is what can be observed after each operation.
pub fn lists() {
    use hooks::ListsOp as L;
    let stdin = std::io::stdin();
    let out = std::io::stdout();
    let mut out = std::io::BufWriter::new(out.lock());
    let idx = |o: &str| -> Option<bool> {
        if o.ends_with('0') { Some(false) } else if o.ends_with('1') { Some(true) } else { None }
    };
    for line in stdin.lock().lines() {
        let Ok(line) = line else { break };
        let mut toks = line.split_whitespace();
        let Some(n) = toks.next().and_then(|t| t.parse::<usize>().ok()) else {
            let _ = writeln!(out, "bad");
            continue;
        };
        let mut ops = Vec::new();
        let mut bad = false;
        for t in toks {
            let parts: Vec<&str> = t.split(':').collect();
            let op = match parts.as_slice() {
                [o] => match *o {
                    "pf" => Some(L::PcRemoveFirst),
                    "qp" => Some(L::QueuePoll),
                    "qd" => Some(L::QueueDrop),
                    o if o.starts_with("lf") => idx(o).map(L::ListRemoveFirst),
                    o if o.starts_with("ld") => idx(o).map(L::ListDrop),
                    o if o.starts_with("ps") => idx(o).map(L::PcSwapList),
                    _ => None,
                },
                [o, x] => x.parse::<usize>().ok().and_then(|x| match *o {
                    "pa" => Some(L::PcAdd(x)),
                    "pr" => Some(L::PcRemove(x)),
                    "qa" => Some(L::QueueAdd(x)),
                    "it" => Some(L::IncrementTracingCounter(x)),
                    o if o.starts_with("la") => idx(o).map(|i| L::ListAdd(i, x)),
                    o if o.starts_with("lr") => idx(o).map(|i| L::ListRemove(i, x)),
                    o if o.starts_with("pm") => idx(o).map(|i| L::PcMarkSelfAndAppend(i, x.min(255) as u8)),
                    _ => None,
                }),
                [o, x, m] => match (x.parse::<usize>().ok(), m.parse::<usize>().ok()) {
                    (Some(x), Some(m)) if *o == "mk" => Some(L::Mark(x, m.min(255) as u8)),
                    _ => None,
                },
                _ => None,
            };
            match op {
                Some(op) => ops.push(op),
                None => {
                    bad = true;
                    break;
                }
            }
        }
        let views = match std::panic::catch_unwind(|| hooks::lists_run(n, &ops)) {
            Ok(v) => v,
            Err(_) => {
                // a debug assertion of lists.rs fired
                let _ = writeln!(out, "panic");
                let _ = out.flush();
                continue;
            }
        };
        let show = |l: &Vec<usize>| l.iter().map(|x| x.to_string()).collect::<Vec<_>>().join(",");
        let opt = |o: Option<usize>| o.map(|x| x.to_string()).unwrap_or_else(|| "-".to_string());
        let mut states: Vec<String> = views
            .iter()
            .map(|v| {
                let lk = v.links.iter().map(|(a, b)| format!("{}/{}", opt(*a), opt(*b))).collect::<Vec<_>>().join(" ");
                let mk = v.marks.iter().map(|x| x.to_string()).collect::<Vec<_>>().join(",");
                let tc = v.tracing_counters.iter().map(|x| x.to_string()).collect::<Vec<_>>().join(",");
                let r = match v.returned {
                    None => ".".to_string(),
                    Some(None) => "none".to_string(),
                    Some(Some(x)) => x.to_string(),
                };
                format!(
                    "l0={} l1={} p={}#{} q={} e={}{}{}{} lk={} mk={} tc={} r={}",
                    show(&v.lists[0]), show(&v.lists[1]), show(&v.possible_cycles), v.possible_cycles_size, show(&v.queue),
                    b(v.is_empty[0]), b(v.is_empty[1]), b(v.is_empty[2]), b(v.is_empty[3]), lk, mk, tc, r
                )
            })
            .collect();
        if bad {
            states.push("bad-op".to_string());
        }
        let _ = writeln!(out, "{}", states.join(" | "));
        // a later case may abort the process: nothing already answered may be lost
        let _ = out.flush();
    }
}
