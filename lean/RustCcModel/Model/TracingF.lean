import RustCcModel.T1.Defs
/-! Instrumented version of the two tracing phases of `__collect` (lib.rs): the same functions as
`T1.tracePhases`, plus (a) the log of `Trace::trace` calls made on user objects, in order, and
(b) a fault plan: the `k`-th user `trace` call panics after having forwarded `j` of its fields.

`tracePhasesF_noFault` (Proofs/TracingF.lean) shows that without a fault the heap and the lists
are exactly those of `T1.tracePhases`, so the graph theorems T1/T2 apply to what the machine does. -/
namespace RustCc
open T1

structure FS where
  ts : TS
  log : List Nat := []              -- objects whose user `trace` was called, in call order
  fault : Option (Nat × Nat) := none -- (calls left until the faulty one, edges forwarded before the panic)

/-- Outcome of tracing one object: `true` = its `trace` panicked. `user x` says whether `x` runs a
user-written `trace` (objects of the crate's own `CleanerMap` type do not). -/
def traceObjF (user : Nat → Bool) (edge : TS → Nat → TS) (pre post : TS → Nat → TS)
    (s : FS) (x : Nat) : Bool × FS :=
  let edges := (s.ts.h x).edges
  if user x then
    match s.fault with
    | some (k, j) =>
      if k ≤ 1 then
        -- the object being traced is in no list: its `ResetMarkDropGuard` un-marks it
        (true, { ts := unmark ((edges.take j).foldl edge (pre s.ts x)) x, log := s.log ++ [x], fault := none })
      else
        (false, { ts := post (edges.foldl edge (pre s.ts x)) x, log := s.log ++ [x], fault := some (k - 1, j) })
    | none => (false, { ts := post (edges.foldl edge (pre s.ts x)) x, log := s.log ++ [x], fault := none })
  else
    (false, { s with ts := post (edges.foldl edge (pre s.ts x)) x })

def countObjF (user : Nat → Bool) (s : FS) (x : Nat) : Bool × FS :=
  traceObjF user countEdge beginObj endObj s x

def rootObjF (user : Nat → Bool) (s : FS) (x : Nat) : Bool × FS :=
  traceObjF user rootEdge unmark (fun t _ => t) s x

/-- `while let Some(ptr) = possible_cycles.remove_first()`; returns the objects still buffered. -/
def countPCF (user : Nat → Bool) (s : FS) : List Nat → Bool × FS × List Nat
  | [] => (false, s, [])
  | x :: rest =>
    match countObjF user s x with
    | (true, s') => (true, s', rest)
    | (false, s') => countPCF user s' rest

def countQueueF (user : Nat → Bool) : Nat → FS → Bool × FS
  | 0, s => (false, s)
  | fuel + 1, s =>
    match s.ts.queue with
    | [] => (false, s)
    | x :: q =>
      match countObjF user { s with ts := { s.ts with queue := q } } x with
      | (true, s') => (true, s')
      | (false, s') => countQueueF user fuel s'

def rootsListF (user : Nat → Bool) (s : FS) : List Nat → Bool × FS × List Nat
  | [] => (false, s, [])
  | x :: rest =>
    match rootObjF user s x with
    | (true, s') => (true, s', rest)
    | (false, s') => rootsListF user s' rest

def rootsQueueF (user : Nat → Bool) : Nat → FS → Bool × FS
  | 0, s => (false, s)
  | fuel + 1, s =>
    match s.ts.queue with
    | [] => (false, s)
    | x :: q =>
      match rootObjF user { s with ts := { s.ts with queue := q } } x with
      | (true, s') => (true, s')
      | (false, s') => rootsQueueF user fuel s'

/-- What unwinding out of `__collect` does to the work lists: every member of `root_list`,
`non_root_list` and `queue` is un-marked by the list destructors, the object whose `trace`
panicked by its `ResetMarkDropGuard`. -/
def unmarkAll (h : Heap) (l : List Nat) : Heap :=
  -- (folded over a structure, not over the heap function: see `World.updAll`)
  (l.foldl (fun (b : TS) x => { b with h := b.h.set x { b.h x with mark := .non } }) { h := h }).h

/-- `ResetTracingCountersGuard` (unwinding out of `trace_counting`): reset `tc` of what is still buffered. -/
def resetTc (h : Heap) (l : List Nat) : Heap :=
  (l.foldl (fun (b : TS) x => { b with h := b.h.set x { b.h x with tc := 0 } }) { h := h }).h

inductive TraceResult
  | done (s : FS)                          -- completed; `s.ts.nonroot` is the reclaim candidate list
  | panicked (h : Heap) (pcRest : List Nat) (log : List Nat)  -- unwound; heap after all guards ran

def tracePhasesF (user : Nat → Bool) (fuel : Nat) (h : Heap) (pc : List Nat)
    (fault : Option (Nat × Nat)) : TraceResult × Option (Nat × Nat) :=
  let unwound (s : FS) (extra pcRest : List Nat) : TraceResult :=
    .panicked (resetTc (unmarkAll s.ts.h (s.ts.queue ++ s.ts.root ++ extra ++ s.ts.nonroot)) pcRest) pcRest s.log
  match countPCF user { ts := { h := h }, fault := fault } pc with
  | (true, s, rest) => (unwound s [] rest, s.fault)
  | (false, s, _) =>
    match countQueueF user fuel s with
    | (true, s) => (unwound s [] [], s.fault)
    | (false, s) =>
      match rootsListF user { s with ts := { s.ts with root := [] } } s.ts.root with
      | (true, s', rest) => (unwound s' rest [], s'.fault)
      | (false, s', _) =>
        match rootsQueueF user fuel s' with
        | (true, s'') => (unwound s'' [] [], s''.fault)
        | (false, s'') => (.done s'', s''.fault)

end RustCc
