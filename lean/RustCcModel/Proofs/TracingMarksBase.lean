import RustCcModel.T1.FinalComplete
import RustCcModel.Proofs.TracingF
/-! Helper lemmas for `TracingMarks`: frame relation, `unmarkAll` / `resetTc`, case analysis of the
instrumented functions. -/
namespace RustCc
open T1

/-! ### Updating only the mark -/

theorem setMark_mark (h : Heap) (y z : Nat) (m : Mark) :
    ((h.set y { h y with mark := m }) z).mark = if z = y then m else (h z).mark := by
  by_cases hz : z = y
  · subst hz; simp
  · simp [Heap.set, hz]

theorem setMark_rc (h : Heap) (y z : Nat) (m : Mark) :
    ((h.set y { h y with mark := m }) z).rc = (h z).rc := by
  by_cases hz : z = y
  · subst hz; simp
  · simp [Heap.set, hz]

theorem setMark_tc (h : Heap) (y z : Nat) (m : Mark) :
    ((h.set y { h y with mark := m }) z).tc = (h z).tc := by
  by_cases hz : z = y
  · subst hz; simp
  · simp [Heap.set, hz]

/-! ### Frame: rc, edges, uedges are never touched -/

def Fr (h h' : Heap) : Prop :=
  ∀ z, (h' z).rc = (h z).rc ∧ (h' z).edges = (h z).edges ∧ (h' z).uedges = (h z).uedges

theorem Fr.refl (h : Heap) : Fr h h := fun _ => ⟨rfl, rfl, rfl⟩

theorem Fr.trans {a b c : Heap} (h1 : Fr a b) (h2 : Fr b c) : Fr a c := fun z =>
  ⟨(h2 z).1.trans (h1 z).1, (h2 z).2.1.trans (h1 z).2.1, (h2 z).2.2.trans (h1 z).2.2⟩

theorem Fr_set (h : Heap) (y : Nat) (o : Obj) (h1 : o.rc = (h y).rc) (h2 : o.edges = (h y).edges)
    (h3 : o.uedges = (h y).uedges) : Fr h (h.set y o) := by
  intro z
  by_cases hz : z = y
  · subst hz; simp [h1, h2, h3]
  · simp [Heap.set, hz]

theorem countEdge_Fr (s : TS) (y : Nat) : Fr s.h (countEdge s y).h := by
  obtain ⟨o, hh, h1, h2, h3, _⟩ := countEdge_heap s y
  rw [hh]; exact Fr_set _ _ _ h1 h2 h3

theorem rootEdge_Fr (s : TS) (y : Nat) : Fr s.h (rootEdge s y).h := by
  unfold rootEdge
  split
  · exact Fr_set _ _ _ rfl rfl rfl
  · exact Fr.refl _

theorem foldl_Fr (edge : TS → Nat → TS) (he : ∀ s y, Fr s.h (edge s y).h) :
    ∀ (l : List Nat) (s : TS), Fr s.h (l.foldl edge s).h
  | [], _ => Fr.refl _
  | y :: l, s => (he s y).trans (foldl_Fr edge he l (edge s y))

theorem beginObj_Fr (s : TS) (x : Nat) : Fr s.h (beginObj s x).h := by
  unfold beginObj; exact Fr_set _ _ _ rfl rfl rfl

theorem unmark_Fr (s : TS) (x : Nat) : Fr s.h (unmark s x).h := by
  unfold unmark; exact Fr_set _ _ _ rfl rfl rfl

theorem endObj_Fr (s : TS) (x : Nat) : Fr s.h (endObj s x).h := by
  rw [endObj_h]; exact Fr_set _ _ _ rfl rfl rfl

theorem countObj_Fr (s : TS) (x : Nat) : Fr s.h (countObj s x).h := by
  unfold countObj
  exact ((beginObj_Fr s x).trans (foldl_Fr countEdge countEdge_Fr _ _)).trans (endObj_Fr _ x)

theorem rootObj_Fr (s : TS) (x : Nat) : Fr s.h (rootObj s x).h := by
  unfold rootObj
  exact (unmark_Fr s x).trans (foldl_Fr rootEdge rootEdge_Fr _ _)

theorem countPC_Fr : ∀ (l : List Nat) (s : TS), Fr s.h (countPC s l).h
  | [], _ => Fr.refl _
  | x :: l, s => (countObj_Fr s x).trans (countPC_Fr l (countObj s x))

theorem rootsList_Fr : ∀ (l : List Nat) (s : TS), Fr s.h (rootsList s l).h
  | [], _ => Fr.refl _
  | x :: l, s => (rootObj_Fr s x).trans (rootsList_Fr l (rootObj s x))

theorem countQueue_Fr : ∀ (fuel : Nat) (s : TS), Fr s.h (countQueue fuel s).h
  | 0, s => Fr.refl _
  | fuel + 1, s => by
    unfold countQueue
    cases hq : s.queue with
    | nil => exact Fr.refl _
    | cons x q =>
      simp only []
      exact Fr.trans (a := s.h) (countObj_Fr { s with queue := q } x) (countQueue_Fr fuel _)

theorem rootsQueue_Fr : ∀ (fuel : Nat) (s : TS), Fr s.h (rootsQueue fuel s).h
  | 0, s => Fr.refl _
  | fuel + 1, s => by
    unfold rootsQueue
    cases hq : s.queue with
    | nil => exact Fr.refl _
    | cons x q =>
      simp only []
      exact Fr.trans (a := s.h) (rootObj_Fr { s with queue := q } x) (rootsQueue_Fr fuel _)

/-! ### The unwinding guards -/

theorem unmarkAll_cons (h : Heap) (x : Nat) (l : List Nat) :
    unmarkAll h (x :: l) = unmarkAll (h.set x { h x with mark := .non }) l := rfl

theorem resetTc_cons (h : Heap) (x : Nat) (l : List Nat) :
    resetTc h (x :: l) = resetTc (h.set x { h x with tc := 0 }) l := rfl

theorem unmarkAll_get : ∀ (l : List Nat) (h : Heap) (z : Nat),
    unmarkAll h l z = if z ∈ l then { h z with mark := .non } else h z
  | [], h, z => by simp [unmarkAll]
  | x :: l, h, z => by
    rw [unmarkAll_cons, unmarkAll_get l]
    by_cases hzx : z = x
    · subst hzx
      by_cases hzl : z ∈ l <;> simp [hzl]
    · by_cases hzl : z ∈ l <;> simp [hzl, hzx, Heap.set]

theorem resetTc_get : ∀ (l : List Nat) (h : Heap) (z : Nat),
    resetTc h l z = if z ∈ l then { h z with tc := 0 } else h z
  | [], h, z => by simp [resetTc]
  | x :: l, h, z => by
    rw [resetTc_cons, resetTc_get l]
    by_cases hzx : z = x
    · subst hzx
      by_cases hzl : z ∈ l <;> simp [hzl]
    · by_cases hzl : z ∈ l <;> simp [hzl, hzx, Heap.set]

/-! ### Case analysis of the instrumented tracing of one object -/

theorem traceObjF_cases (user : Nat → Bool) (edge : TS → Nat → TS) (pre post : TS → Nat → TS)
    (s : FS) (x : Nat) (b : Bool) (s' : FS) (h : traceObjF user edge pre post s x = (b, s')) :
    (b = false ∧ s'.ts = post ((s.ts.h x).edges.foldl edge (pre s.ts x)) x) ∨
    (b = true ∧ ∃ j, s'.ts = unmark (((s.ts.h x).edges.take j).foldl edge (pre s.ts x)) x) := by
  unfold traceObjF at h
  by_cases hu : user x = true
  · cases hf : s.fault with
    | none =>
      simp only [hu, hf, if_true] at h
      injection h with h1 h2
      subst h1; subst h2; exact Or.inl ⟨rfl, rfl⟩
    | some kj =>
      obtain ⟨k, j⟩ := kj
      simp only [hu, hf, if_true] at h
      by_cases hk : k ≤ 1
      · rw [if_pos hk] at h
        injection h with h1 h2
        subst h1; subst h2; exact Or.inr ⟨rfl, j, rfl⟩
      · rw [if_neg hk] at h
        injection h with h1 h2
        subst h1; subst h2; exact Or.inl ⟨rfl, rfl⟩
  · simp only [hu] at h
    injection h with h1 h2
    subst h1; subst h2; exact Or.inl ⟨rfl, rfl⟩

theorem countObjF_false (user : Nat → Bool) (s s' : FS) (x : Nat)
    (h : countObjF user s x = (false, s')) : s'.ts = countObj s.ts x := by
  rcases traceObjF_cases user countEdge beginObj endObj s x false s' h with ⟨_, h2⟩ | ⟨h1, _⟩
  · exact h2
  · cases h1

theorem countObjF_true (user : Nat → Bool) (s s' : FS) (x : Nat)
    (h : countObjF user s x = (true, s')) :
    ∃ j, s'.ts = unmark (((s.ts.h x).edges.take j).foldl countEdge (beginObj s.ts x)) x := by
  rcases traceObjF_cases user countEdge beginObj endObj s x true s' h with ⟨h1, _⟩ | ⟨_, h2⟩
  · cases h1
  · exact h2

theorem rootObjF_false (user : Nat → Bool) (s s' : FS) (x : Nat)
    (h : rootObjF user s x = (false, s')) : s'.ts = rootObj s.ts x := by
  rcases traceObjF_cases user rootEdge unmark (fun t _ => t) s x false s' h with ⟨_, h2⟩ | ⟨h1, _⟩
  · exact h2
  · cases h1

theorem rootObjF_true (user : Nat → Bool) (s s' : FS) (x : Nat)
    (h : rootObjF user s x = (true, s')) :
    ∃ j, s'.ts = unmark (((s.ts.h x).edges.take j).foldl rootEdge (unmark s.ts x)) x := by
  rcases traceObjF_cases user rootEdge unmark (fun t _ => t) s x true s' h with ⟨h1, _⟩ | ⟨_, h2⟩
  · cases h1
  · exact h2

/-! ### Completed runs of the instrumented loops are the pure loops -/

theorem countPCF_false (user : Nat → Bool) : ∀ (l : List Nat) (s s' : FS) (rest : List Nat),
    countPCF user s l = (false, s', rest) → s'.ts = countPC s.ts l
  | [], s, s', rest, h => by
    unfold countPCF at h
    injection h with _ h2
    injection h2 with h3 _
    subst h3; rfl
  | x :: l, s, s', rest, h => by
    unfold countPCF at h
    generalize hr : countObjF user s x = r at h
    obtain ⟨b, s1⟩ := r
    cases b
    · simp only at h
      have := countPCF_false user l s1 s' rest h
      rw [this, countObjF_false user s s1 x hr]; rfl
    · simp only at h
      injection h with h1 _
      cases h1

theorem rootsListF_false (user : Nat → Bool) : ∀ (l : List Nat) (s s' : FS) (rest : List Nat),
    rootsListF user s l = (false, s', rest) → s'.ts = rootsList s.ts l
  | [], s, s', rest, h => by
    unfold rootsListF at h
    injection h with _ h2
    injection h2 with h3 _
    subst h3; rfl
  | x :: l, s, s', rest, h => by
    unfold rootsListF at h
    generalize hr : rootObjF user s x = r at h
    obtain ⟨b, s1⟩ := r
    cases b
    · simp only at h
      have := rootsListF_false user l s1 s' rest h
      rw [this, rootObjF_false user s s1 x hr]; rfl
    · simp only at h
      injection h with h1 _
      cases h1

theorem countQueueF_false (user : Nat → Bool) : ∀ (fuel : Nat) (s s' : FS),
    countQueueF user fuel s = (false, s') → s'.ts = countQueue fuel s.ts
  | 0, s, s', h => by
    unfold countQueueF at h
    injection h with _ h2
    subst h2; rfl
  | fuel + 1, s, s', h => by
    unfold countQueueF at h
    unfold countQueue
    cases hq : s.ts.queue with
    | nil =>
      simp only [hq] at h
      injection h with _ h2
      subst h2; rfl
    | cons x q =>
      simp only [hq] at h
      generalize hr : countObjF user { s with ts := { s.ts with queue := q } } x = r at h
      obtain ⟨b, s1⟩ := r
      cases b
      · simp only at h
        have := countQueueF_false user fuel s1 s' h
        rw [this, countObjF_false user _ s1 x hr]
      · simp only at h
        injection h with h1 _
        cases h1

theorem rootsQueueF_false (user : Nat → Bool) : ∀ (fuel : Nat) (s s' : FS),
    rootsQueueF user fuel s = (false, s') → s'.ts = rootsQueue fuel s.ts
  | 0, s, s', h => by
    unfold rootsQueueF at h
    injection h with _ h2
    subst h2; rfl
  | fuel + 1, s, s', h => by
    unfold rootsQueueF at h
    unfold rootsQueue
    cases hq : s.ts.queue with
    | nil =>
      simp only [hq] at h
      injection h with _ h2
      subst h2; rfl
    | cons x q =>
      simp only [hq] at h
      generalize hr : rootObjF user { s with ts := { s.ts with queue := q } } x = r at h
      obtain ⟨b, s1⟩ := r
      cases b
      · simp only at h
        have := rootsQueueF_false user fuel s1 s' h
        rw [this, rootObjF_false user _ s1 x hr]
      · simp only at h
        injection h with h1 _
        cases h1

end RustCc
