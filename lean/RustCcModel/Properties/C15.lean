import RustCcModel.Proofs.Policy
import RustCcModel.Generated.Consts
import RustCcModel.Model.Machine
import RustCcModel.Proofs.ExecsStep
/-! # C15 — automatic collection follows the documented trigger and threshold policy

`D` below is `DEFAULT_BYTES_THRESHOLD` as regenerated from config.rs; the statements hold for every
`D > 0`, so changing the default does not break them. -/
namespace RustCc.C15
open Policy

/-- Trigger: the decision is exactly "enabled, and (allocated > threshold, or buffered > configured threshold)". -/
theorem trigger_iff (auto : Bool) (alloc thr buffered : Nat) (bufThr : Option Nat) :
    shouldCollect auto alloc thr buffered bufThr = true ↔
      auto = true ∧ (thr < alloc ∨ ∃ b, bufThr = some b ∧ b < buffered) :=
  shouldCollect_iff auto alloc thr buffered bufThr

/-- Never when `auto_collect` is disabled. -/
theorem never_when_disabled (alloc thr buffered : Nat) (bufThr : Option Nat) :
    shouldCollect false alloc thr buffered bufThr = false := by simp [shouldCollect]

/-- On the machine: creating a `Cc` starts a collection exactly when not already collecting and the
decision above is positive (and the feature is compiled in) — at most once per creation, because the
frames pushed by `new` contain a single `collectLoop`. -/
theorem machine_trigger (c : Cfg) (w : World) :
    w.shouldCollect c = true ↔ c.auto = true ∧ w.collecting = false ∧
      Policy.shouldCollect w.cfgAuto w.allocBytes w.thr w.pc.length w.bufThr = true := by
  unfold World.shouldCollect
  cases c.auto <;> cases w.collecting <;> simp

/-- Threshold after every adjustment, exact-fraction form (`percent = num / den`): a power-of-two
multiple of the initial value, not below it, strictly above allocated bytes, and not needlessly high. -/
theorem threshold_after_adjust (D alloc num den thr : Nat) (hD : 0 < D) (hp : IsDPow D thr) :
    let r := adjust D (fuelFor alloc thr) alloc num den thr
    IsDPow D r ∧ D ≤ r ∧ alloc < r ∧
      (r * num ≠ 0 → (r * num < alloc * den ∨ r / 2 ≤ alloc ∨ r = D)) := by
  obtain ⟨h1, h2⟩ := fuelFor_suffices D alloc thr hD hp
  exact adjust_spec D (fuelFor alloc thr) alloc num den thr hD hp h1 h2

/-- The same for the product the code computes in `f64` (round-to-nearest-even), with the bit
pattern of `adjustment_percent` as a parameter. -/
theorem threshold_after_adjust_f64 (D alloc bits thr : Nat) (hD : 0 < D) (hp : IsDPow D thr) :
    let r := adjustF D (fuelFor alloc thr) alloc bits thr
    IsDPow D r ∧ D ≤ r ∧ alloc < r ∧
      (productUnits thr bits ≠ 0 → thr ≤ alloc ∨ (leProduct alloc r bits = false ∨ r / 2 ≤ alloc ∨ r = D)) := by
  obtain ⟨h1, h2⟩ := fuelFor_suffices D alloc thr hD hp
  exact adjustF_spec D (fuelFor alloc thr) alloc bits thr hD hp h1 h2

/-- The invariant `IsDPow D thr` holds initially and is kept by every adjustment: so it holds after
every collection of every history. -/
theorem initial_threshold (D : Nat) : IsDPow D D := ⟨0, by simp⟩

/-- The regenerated default is positive (hypothesis `0 < D` of the theorems above). -/
theorem default_positive : 0 < Consts.defaultThr := by decide

/-- Non-vacuity: concrete runs of both loops. -/
example : adjust 100 64 1000 1 10 100 = 1600 := by decide
example : adjust 100 64 10 1 10 1600 = 100 := by decide
example : adjust 100 64 150 1 10 1600 = 800 := by decide

/-- **At most one collection per creation, never a second one while one runs**: every micro-step of the machine — in
particular the step that executes `Cc::new` / `new_cyclic` / `Cleaner::register`'s allocation — raises `executions_count()` by
at most one, and if it does, no collection was in progress before the step and one is after it. (Any world, any mode.) -/
theorem at_most_one_collection_per_step (c : Cfg) (w : World) :
    (step c w).execs = w.execs ∨ ((step c w).execs = w.execs + 1 ∧ w.collecting = false ∧ (step c w).collecting = true) :=
  step_exLe c w

end RustCc.C15
