import RustCcModel.Proofs.WeakInv2
/-! Simp lemmas: what the helpers of the machine do to the parts of the world the weak invariant reads
(GENERATED block), the `wneutral` tactic, and the building blocks of the proof (one per primitive move of a `Weak`). -/
namespace RustCc
open World

variable {ex : Bool}

@[simp] theorem wk_removeFromList_W (w : World) (y : Id) : (w.removeFromList y).W = w.W := by unfold removeFromList; split <;> rfl
@[simp] theorem wk_removeFromList_K (w : World) (y : Id) : (w.removeFromList y).K = w.K := by unfold removeFromList; split <;> rfl
@[simp] theorem wk_removeFromList_wstash (w : World) (y : Id) : (w.removeFromList y).wstash = w.wstash := by unfold removeFromList; split <;> rfl
@[simp] theorem wk_addToList_W (w : World) (y : Id) : (w.addToList y).W = w.W := by unfold addToList; split <;> (try rfl) <;> split <;> rfl
@[simp] theorem wk_addToList_K (w : World) (y : Id) : (w.addToList y).K = w.K := by unfold addToList; split <;> (try rfl) <;> split <;> rfl
@[simp] theorem wk_addToList_wstash (w : World) (y : Id) : (w.addToList y).wstash = w.wstash := by unfold addToList; split <;> (try rfl) <;> split <;> rfl
@[simp] theorem wk_cloneOk_W (w : World) (y : Id) : (w.cloneOk y).W = w.W := by unfold cloneOk removeFromList; split <;> rfl
@[simp] theorem wk_cloneOk_K (w : World) (y : Id) : (w.cloneOk y).K = w.K := by unfold cloneOk removeFromList; split <;> rfl
@[simp] theorem wk_cloneOk_wstash (w : World) (y : Id) : (w.cloneOk y).wstash = w.wstash := by unfold cloneOk removeFromList; split <;> rfl
@[simp] theorem wk_dropMetadata_W (w : World) (y : Id) : (w.dropMetadata y).W = w.W := by unfold dropMetadata; split <;> (try rfl) <;> split <;> rfl
@[simp] theorem wk_dropMetadata_K (w : World) (y : Id) : (w.dropMetadata y).K = w.K := by unfold dropMetadata; split <;> (try rfl) <;> split <;> rfl
@[simp] theorem wk_dropMetadata_wstash (w : World) (y : Id) : (w.dropMetadata y).wstash = w.wstash := by unfold dropMetadata; split <;> (try rfl) <;> split <;> rfl
@[simp] theorem wk_freeBox_W (w : World) (y : Id) : (w.freeBox y).W = w.W := rfl
@[simp] theorem wk_freeBox_K (w : World) (y : Id) : (w.freeBox y).K = w.K := rfl
@[simp] theorem wk_freeBox_wstash (w : World) (y : Id) : (w.freeBox y).wstash = w.wstash := rfl
@[simp] theorem wk_initMeta_W (w : World) (y : Id) : (w.initMeta y).W = w.W := by unfold initMeta; split <;> rfl
@[simp] theorem wk_initMeta_K (w : World) (y : Id) : (w.initMeta y).K = w.K := by unfold initMeta; split <;> rfl
@[simp] theorem wk_initMeta_wstash (w : World) (y : Id) : (w.initMeta y).wstash = w.wstash := by unfold initMeta; split <;> rfl
@[simp] theorem wk_weakDrop_W (w : World) (r : WRef) : (w.weakDrop r).W = w.W := by
  unfold weakDrop; cases r with
  | dangling => rfl
  | to y => simp only; split <;> rfl
@[simp] theorem wk_weakDrop_K (w : World) (r : WRef) : (w.weakDrop r).K = w.K := by
  unfold weakDrop; cases r with
  | dangling => rfl
  | to y => simp only; split <;> rfl
@[simp] theorem wk_weakDrop_wstash (w : World) (r : WRef) : (w.weakDrop r).wstash = w.wstash := by
  unfold weakDrop; cases r with
  | dangling => rfl
  | to y => simp only; split <;> rfl
@[simp] theorem wk_updAll_W (w : World) (l : List Id) (g : Obj → Obj) : (w.updAll l g).W = w.W := by
  unfold updAll
  induction l generalizing w with
  | nil => rfl
  | cons x r ih => simp only [List.foldl_cons]; rw [ih]; rfl
@[simp] theorem wk_fromT1_W (w : World) (h : T1.Heap) : (fromT1 w h).W = w.W := rfl
@[simp] theorem wk_updAll_K (w : World) (l : List Id) (g : Obj → Obj) : (w.updAll l g).K = w.K := by
  unfold updAll
  induction l generalizing w with
  | nil => rfl
  | cons x r ih => simp only [List.foldl_cons]; rw [ih]; rfl
@[simp] theorem wk_fromT1_K (w : World) (h : T1.Heap) : (fromT1 w h).K = w.K := rfl
@[simp] theorem wk_updAll_wstash (w : World) (l : List Id) (g : Obj → Obj) : (w.updAll l g).wstash = w.wstash := by
  unfold updAll
  induction l generalizing w with
  | nil => rfl
  | cons x r ih => simp only [List.foldl_cons]; rw [ih]; rfl
@[simp] theorem wk_fromT1_wstash (w : World) (h : T1.Heap) : (fromT1 w h).wstash = w.wstash := rfl
@[simp] theorem wk_fromT1_metas (w : World) (h : T1.Heap) : (fromT1 w h).metas = w.metas := rfl
@[simp] theorem wk_updAll_metas (w : World) (l : List Id) (g : Obj → Obj) : (w.updAll l g).metas = w.metas := (updAll_same w l g).2.2.1
@[simp] theorem wk_freeBox_metas (w : World) (y : Id) : (w.freeBox y).metas = w.metas := rfl
@[simp] theorem wk_removeFromList_wslots (w : World) (y x : Id) : ((w.removeFromList y).heap x).wslots = (w.heap x).wslots := by unfold removeFromList; split <;> (try rfl) <;> (by_cases h : x = y <;> simp [upd, Heap.set, h])
@[simp] theorem wk_removeFromList_hasMeta (w : World) (y x : Id) : ((w.removeFromList y).heap x).hasMeta = (w.heap x).hasMeta := by unfold removeFromList; split <;> (try rfl) <;> (by_cases h : x = y <;> simp [upd, Heap.set, h])
@[simp] theorem wk_addToList_wslots (w : World) (y x : Id) : ((w.addToList y).heap x).wslots = (w.heap x).wslots := by unfold addToList; split <;> (try rfl) <;> split <;> (try rfl) <;> (by_cases h : x = y <;> simp [upd, Heap.set, h])
@[simp] theorem wk_addToList_hasMeta (w : World) (y x : Id) : ((w.addToList y).heap x).hasMeta = (w.heap x).hasMeta := by unfold addToList; split <;> (try rfl) <;> split <;> (try rfl) <;> (by_cases h : x = y <;> simp [upd, Heap.set, h])
@[simp] theorem wk_dropMetadata_wslots (w : World) (y x : Id) : ((w.dropMetadata y).heap x).wslots = (w.heap x).wslots := by unfold dropMetadata; split <;> (try rfl) <;> split <;> rfl
@[simp] theorem wk_dropMetadata_hasMeta (w : World) (y x : Id) : ((w.dropMetadata y).heap x).hasMeta = (w.heap x).hasMeta := by unfold dropMetadata; split <;> (try rfl) <;> split <;> rfl
@[simp] theorem wk_freeBox_wslots (w : World) (y x : Id) : ((w.freeBox y).heap x).wslots = (w.heap x).wslots := by by_cases h : x = y <;> simp [freeBox, upd, emit, Heap.set, h]
@[simp] theorem wk_freeBox_hasMeta (w : World) (y x : Id) : ((w.freeBox y).heap x).hasMeta = (w.heap x).hasMeta := by by_cases h : x = y <;> simp [freeBox, upd, emit, Heap.set, h]
@[simp] theorem wk_initMeta_wslots (w : World) (y x : Id) : ((w.initMeta y).heap x).wslots = (w.heap x).wslots := by unfold initMeta; split <;> (try rfl) <;> (by_cases h : x = y <;> simp [upd, updMeta, Heap.set, h])
@[simp] theorem wk_cloneOk_wslots (w : World) (y x : Id) : ((w.cloneOk y).heap x).wslots = (w.heap x).wslots := by
  unfold cloneOk
  rw [wk_removeFromList_wslots]
  by_cases h : x = y <;> simp [upd, Heap.set, h]
@[simp] theorem wk_fromT1_wslots (w : World) (h : T1.Heap) (x : Id) : ((fromT1 w h).heap x).wslots = (w.heap x).wslots := rfl
@[simp] theorem wk_cloneOk_hasMeta (w : World) (y x : Id) : ((w.cloneOk y).heap x).hasMeta = (w.heap x).hasMeta := by
  unfold cloneOk
  rw [wk_removeFromList_hasMeta]
  by_cases h : x = y <;> simp [upd, Heap.set, h]
@[simp] theorem wk_fromT1_hasMeta (w : World) (h : T1.Heap) (x : Id) : ((fromT1 w h).heap x).hasMeta = (w.heap x).hasMeta := rfl
theorem upd_wslots_same' (w : World) (t : Id) (g : Obj → Obj) (u : Id) (hg : ∀ o, (g o).wslots = o.wslots) :
    ((w.upd t g).heap u).wslots = (w.heap u).wslots := by
  by_cases h : u = t
  · subst h; simp [upd, hg]
  · simp [upd, Heap.set, h]
theorem updAll_wslots_same' (w : World) (l : List Id) (g : Obj → Obj) (u : Id) (hg : ∀ o, (g o).wslots = o.wslots) :
    ((w.updAll l g).heap u).wslots = (w.heap u).wslots := by
  unfold updAll
  induction l generalizing w with
  | nil => rfl
  | cons x r ih => simp only [List.foldl_cons]; rw [ih, upd_wslots_same' _ _ _ _ hg]
theorem upd_hasMeta_same' (w : World) (t : Id) (g : Obj → Obj) (u : Id) (hg : ∀ o, (g o).hasMeta = o.hasMeta) :
    ((w.upd t g).heap u).hasMeta = (w.heap u).hasMeta := by
  by_cases h : u = t
  · subst h; simp [upd, hg]
  · simp [upd, Heap.set, h]
theorem updAll_hasMeta_same' (w : World) (l : List Id) (g : Obj → Obj) (u : Id) (hg : ∀ o, (g o).hasMeta = o.hasMeta) :
    ((w.updAll l g).heap u).hasMeta = (w.heap u).hasMeta := by
  unfold updAll
  induction l generalizing w with
  | nil => rfl
  | cons x r ih => simp only [List.foldl_cons]; rw [ih, upd_hasMeta_same' _ _ _ _ hg]
theorem upd_boxLive_same' (w : World) (t : Id) (g : Obj → Obj) (u : Id) (hg : ∀ o, (g o).boxLive = o.boxLive) :
    ((w.upd t g).heap u).boxLive = (w.heap u).boxLive := by
  by_cases h : u = t
  · subst h; simp [upd, hg]
  · simp [upd, Heap.set, h]
theorem updAll_boxLive_same' (w : World) (l : List Id) (g : Obj → Obj) (u : Id) (hg : ∀ o, (g o).boxLive = o.boxLive) :
    ((w.updAll l g).heap u).boxLive = (w.heap u).boxLive := by
  unfold updAll
  induction l generalizing w with
  | nil => rfl
  | cons x r ih => simp only [List.foldl_cons]; rw [ih, upd_boxLive_same' _ _ _ _ hg]
@[simp] theorem setSlot_wslots (o : Obj) (s : Slot) (v) : (setSlot o s v).wslots = o.wslots := by cases s <;> rfl
@[simp] theorem setSlot_hasMeta (o : Obj) (s : Slot) (v) : (setSlot o s v).hasMeta = o.hasMeta := by cases s <;> rfl
@[simp] theorem wk_fromT1_boxLive (w : World) (h : T1.Heap) (x : Id) : ((fromT1 w h).heap x).boxLive = (w.heap x).boxLive := rfl
@[simp] theorem wk_startCollect_stack_cycs (w : World) : cycs w.startCollect.stack = cycs w.stack := by
  rw [stack_startCollect, cycs_cons]; rfl
@[simp] theorem wk_fromT1_stack (w : World) (h : T1.Heap) : (fromT1 w h).stack = w.stack := rfl
@[simp] theorem wk_fromT1_next (w : World) (h : T1.Heap) : (fromT1 w h).next = w.next := rfl
@[simp] theorem wk_weakDrop_stack (w : World) (r : WRef) : (w.weakDrop r).stack = w.stack := by
  unfold weakDrop; cases r with
  | dangling => rfl
  | to y => simp only; split <;> rfl

/-- Closes the side goals of `WeakH.neutral`. -/
macro "wk_simp" : tactic => `(tactic| (
  first
    | rfl
    | (intros; rfl)
    | (intros; simp [cycs_cons, Frame.cyc, upd_wslots_same', upd_hasMeta_same', upd_boxLive_same', updAll_wslots_same',
         updAll_hasMeta_same', updAll_boxLive_same']; done)))

/-- `wneutral h`: the goal `WeakH ex w' E` follows from `h : WeakH ex w E` because the step touches nothing the invariant reads. -/
macro "wneutral " h:term : tactic => `(tactic| (
  refine WeakH.neutral $h ?_ ?_ ?_ ?_ ?_ ?_ ?_ ?_ ?_ <;> wk_simp))

theorem WeakH.ret {w : World} {E : List Id} (h : WeakH ex w E) (r : Ret) : WeakH ex { w with ret := r } E := by wneutral h
theorem WeakH.emit {w : World} {E : List Id} (h : WeakH ex w E) (e : Event) : WeakH ex (w.emit e) E := by wneutral h
theorem WeakH.raise {w : World} {E : List Id} (h : WeakH ex w E) : WeakH ex w.raise E := by wneutral h
theorem WeakH.raiseLogged {w : World} {E : List Id} (h : WeakH ex w E) : WeakH ex w.raiseLogged E := by wneutral h
theorem WeakH.removeFromList {w : World} {E : List Id} (h : WeakH ex w E) (y : Id) : WeakH ex (w.removeFromList y) E := by wneutral h
theorem WeakH.cloneOk {w : World} {E : List Id} (h : WeakH ex w E) (y : Id) : WeakH ex (w.cloneOk y) E := by wneutral h
theorem WeakH.startCollect {w : World} {E : List Id} (h : WeakH ex w E) : WeakH ex w.startCollect E := by wneutral h

end RustCc
