import RustCcModel.Proofs.Policy
import RustCcModel.Generated.Consts
import RustCcModel.Model.Machine
import RustCcModel.Proofs.ExecsStep
import RustCcModel.Proofs.Rounding
/-! # C15 — automatic collection follows the documented trigger and threshold policy

`D` below is `DEFAULT_BYTES_THRESHOLD` as regenerated from config.rs; the statements hold for every
`D > 0`, so changing the default does not break them. -/
namespace RustCc.C15
open Policy

/-- Trigger: the decision is exactly "enabled, and (allocated > threshold, or buffered > configured threshold)". -/
theorem trigger_iff (auto : Bool) (alloc thr buffered : Nat) (bufThr : Option Nat) :
    shouldCollect auto alloc thr buffered bufThr = true ↔
      auto = true ∧ (thr < alloc ∨ ∃ b, bufThr = some b ∧ b < buffered) :=
  shouldCollect_iff auto alloc thr buffered bufThr

/-- Never when `auto_collect` is disabled. -/
theorem never_when_disabled (alloc thr buffered : Nat) (bufThr : Option Nat) :
    shouldCollect false alloc thr buffered bufThr = false := by simp [shouldCollect]

/-- On the machine: creating a `Cc` starts a collection exactly when not already collecting and the
decision above is positive (and the feature is compiled in) — at most once per creation, because the
frames pushed by `new` contain a single `collectLoop`. -/
theorem machine_trigger (c : Cfg) (w : World) :
    w.shouldCollect c = true ↔ c.auto = true ∧ w.collecting = false ∧
      Policy.shouldCollect w.cfgAuto w.allocBytes w.thr w.pc.length w.bufThr = true := by
  unfold World.shouldCollect
  cases c.auto <;> cases w.collecting <;> simp

/-- Threshold after every adjustment, exact-fraction form (`percent = num / den`): a power-of-two
multiple of the initial value, not below it, strictly above allocated bytes, and not needlessly high. -/
theorem threshold_after_adjust (D alloc num den thr : Nat) (hD : 0 < D) (hp : IsDPow D thr) :
    let r := adjust D (fuelFor alloc thr) alloc num den thr
    IsDPow D r ∧ D ≤ r ∧ alloc < r ∧
      (r * num ≠ 0 → (r * num < alloc * den ∨ r / 2 ≤ alloc ∨ r = D)) := by
  obtain ⟨h1, h2⟩ := fuelFor_suffices D alloc thr hD hp
  exact adjust_spec D (fuelFor alloc thr) alloc num den thr hD hp h1 h2

/-- The same for the product the code computes in `f64` (round-to-nearest-even), with the bit
pattern of `adjustment_percent` as a parameter. -/
theorem threshold_after_adjust_f64 (D alloc bits thr : Nat) (hD : 0 < D) (hp : IsDPow D thr) :
    let r := adjustF D (fuelFor alloc thr) alloc bits thr
    IsDPow D r ∧ D ≤ r ∧ alloc < r ∧
      (productUnits thr bits ≠ 0 → thr ≤ alloc ∨ (leProduct alloc r bits = false ∨ r / 2 ≤ alloc ∨ r = D)) := by
  obtain ⟨h1, h2⟩ := fuelFor_suffices D alloc thr hD hp
  exact adjustF_spec D (fuelFor alloc thr) alloc bits thr hD hp h1 h2

/-- **The `f64` comparison decides the exact one** (`Proofs/Rounding.lean`: round-to-nearest-even is monotone and exact on
values with at most 53 significant bits): for byte counts below `2^53`, where `as f64` is exact, "the code found
`allocated as f64 <= threshold as f64 * percent` false" means `threshold × percent < allocated` for the exact values
(`percent = m · 2^e / 2^1074`, `(m, e) = decode bits`). -/
theorem computed_comparison_is_exact (alloc thr bits : Nat) (ha : alloc < 2 ^ 53) (ht : thr < 2 ^ 53)
    (h : leProduct alloc thr bits = false) :
    thr * (decode bits).1 * 2 ^ (decode bits).2 < alloc * 2 ^ 1074 :=
  leProduct_false_exact alloc thr bits ha ht h

/-- Threshold after every adjustment as the code computes it, with the "not needlessly high" clause about the **exact**
values: allocated bytes exceed `threshold × adjustment_percent`, or halving would not keep it above allocated, or it is at
its initial value — for byte counts below `2^53`. -/
theorem threshold_after_adjust_f64_exact (D alloc bits thr : Nat) (hD : 0 < D) (hp : IsDPow D thr)
    (ha : alloc < 2 ^ 53) (hr : adjustF D (fuelFor alloc thr) alloc bits thr < 2 ^ 53) :
    let r := adjustF D (fuelFor alloc thr) alloc bits thr
    IsDPow D r ∧ D ≤ r ∧ alloc < r ∧
      (productUnits thr bits ≠ 0 → thr ≤ alloc ∨
        (r * (decode bits).1 * 2 ^ (decode bits).2 < alloc * 2 ^ 1074 ∨ r / 2 ≤ alloc ∨ r = D)) := by
  have h := threshold_after_adjust_f64 D alloc bits thr hD hp
  refine ⟨h.1, h.2.1, h.2.2.1, ?_⟩
  intro hne
  rcases h.2.2.2 hne with h1 | h1 | h1 | h1
  · exact Or.inl h1
  · exact Or.inr (Or.inl (leProduct_false_exact alloc _ bits ha hr h1))
  · exact Or.inr (Or.inr (Or.inl h1))
  · exact Or.inr (Or.inr (Or.inr h1))

/-- Rounding facts used above, for every input. -/
theorem rounding_monotone (a b : Nat) (h : a ≤ b) : roundUnits a ≤ roundUnits b := roundUnits_mono a b h
theorem rounding_exact_on_representable (k j : Nat) (hk : k < 2 ^ 53) : roundUnits (k * 2 ^ j) = k * 2 ^ j :=
  roundUnits_exact k j hk

/-- The invariant `IsDPow D thr` holds initially and is kept by every adjustment: so it holds after
every collection of every history. -/
theorem initial_threshold (D : Nat) : IsDPow D D := ⟨0, by simp⟩

/-- The regenerated default is positive (hypothesis `0 < D` of the theorems above). -/
theorem default_positive : 0 < Consts.defaultThr := by decide

/-- Non-vacuity: concrete runs of both loops. -/
example : adjust 100 64 1000 1 10 100 = 1600 := by decide
example : adjust 100 64 10 1 10 1600 = 100 := by decide
example : adjust 100 64 150 1 10 1600 = 800 := by decide

/-- **At most one collection per creation, never a second one while one runs**: every micro-step of the machine — in
particular the step that executes `Cc::new` / `new_cyclic` / `Cleaner::register`'s allocation — raises `executions_count()` by
at most one, and if it does, no collection was in progress before the step and one is after it. (Any world, any mode.) -/
theorem at_most_one_collection_per_step (c : Cfg) (w : World) :
    (step c w).execs = w.execs ∨ ((step c w).execs = w.execs + 1 ∧ w.collecting = false ∧ (step c w).collecting = true) :=
  step_exLe c w

end RustCc.C15
