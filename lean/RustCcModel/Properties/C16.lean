import RustCcModel.Model.Bits
import RustCcModel.Model.Machine
import RustCcModel.Proofs.MaxCounts
/-! # C16 — reference counts saturate with a panic instead of wrapping

All statements are about arbitrary 16-bit words (`< 2^16`); the limits `rcMax`, `weakMax`,
`counterMask`, `weakAccessibleMask` come from `Generated/Consts.lean`, i.e. from the sources.
The machine-level part (clone / upgrade / downgrade at the limit panic with the world unchanged) is
`RustCc.C16.clone_at_max_raises` below. -/
namespace RustCc.C16
open Bits

theorem hM : M = 16384 := by decide
theorem hW : W = 32768 := by decide
theorem hMax : Consts.rcMax = 16382 := by decide
theorem hWMax : Consts.weakMax = 32767 := by decide

/-- The reserved all-ones value is one above the maximum (so saturating at `MAX` never produces it). -/
theorem max_is_below_reserved : Consts.rcMax + 1 = Consts.counterMask ∧ Consts.counterMask + 1 = 2 ^ 14 ∧
    Consts.weakMax + 1 = Consts.weakAccessibleMask ∧ Consts.weakAccessibleMask = 2 ^ 15 := by decide

/-- `increment_counter` at the limit fails and leaves the word unchanged. -/
theorem incr_saturates (c : Nat) (h : rc c = Consts.rcMax) : incrCounter c = (c, false) := by
  unfold incrCounter rc at *; simp [h]

/-- Below the limit it adds exactly one to the count and touches neither flag bit. -/
theorem incr_exact (c : Nat) (hw : c < 2 ^ 16) (h : rc c < Consts.rcMax) :
    (incrCounter c).2 = true ∧ rc (incrCounter c).1 = rc c + 1 ∧
    finBit (incrCounter c).1 = finBit c ∧ metaBit (incrCounter c).1 = metaBit c ∧
    (incrCounter c).1 < 2 ^ 16 := by
  unfold incrCounter rc finBit metaBit at *
  simp only [hM, hMax] at *
  split
  · omega
  · simp only [true_and]; omega

/-- The count never reaches the reserved value and never wraps: from a word whose count is at most
`MAX`, an increment keeps it at most `MAX` (by induction: so does every sequence of increments). -/
theorem incr_range (c : Nat) (h : rc c ≤ Consts.rcMax) : rc (incrCounter c).1 ≤ Consts.rcMax := by
  unfold incrCounter rc at *
  simp only [hM, hMax] at *
  split <;> simp only <;> omega

theorem decr_exact (c : Nat) (h : 0 < rc c) :
    (decrCounter c).2 = true ∧ rc (decrCounter c).1 = rc c - 1 ∧
    finBit (decrCounter c).1 = finBit c ∧ metaBit (decrCounter c).1 = metaBit c := by
  unfold decrCounter rc finBit metaBit at *
  simp only [hM] at *
  split
  · omega
  · simp only [true_and]; omega

theorem decr_zero (c : Nat) (h : rc c = 0) : decrCounter c = (c, false) := by
  unfold decrCounter rc at *; simp [h]

/-- The tracing counter: same saturation, mark bits untouched. -/
theorem incrTracing_saturates (t : Nat) (h : tc t = Consts.rcMax) : incrTracing t = (t, false) := by
  unfold incrTracing tc at *; simp [h]

theorem incrTracing_exact (t : Nat) (h : tc t < Consts.rcMax) :
    (incrTracing t).2 = true ∧ tc (incrTracing t).1 = tc t + 1 ∧ mark (incrTracing t).1 = mark t := by
  unfold incrTracing tc mark at *
  simp only [hM, hMax] at *
  split
  · omega
  · simp only [true_and]; omega

theorem resetTracing_spec (t : Nat) : tc (resetTracing t) = 0 ∧ mark (resetTracing t) = mark t := by
  unfold resetTracing tc mark; simp only [hM]; omega

theorem setMark_spec (t k : Nat) (hk : k < 4) : mark (setMark t k) = k ∧ tc (setMark t k) = tc t ∧
    setMark t k < 2 ^ 16 := by
  unfold setMark tc mark; simp only [hM]; omega

/-- The flag setters change exactly their own bit: the count cannot be corrupted by them, and they
cannot be corrupted by the count (no spilling). -/
theorem setFinalized_spec (c : Nat) (v : Bool) (hw : c < 2 ^ 16) :
    rc (setFinalized c v) = rc c ∧ finBit (setFinalized c v) = (if v then 1 else 0) ∧
    metaBit (setFinalized c v) = metaBit c ∧ setFinalized c v < 2 ^ 16 := by
  unfold setFinalized rc finBit metaBit
  simp only [hM]
  cases v <;> simp only [Bool.false_eq_true, if_false, if_true] <;> split <;> omega

theorem setHasMeta_spec (c : Nat) (v : Bool) (hw : c < 2 ^ 16) :
    rc (setHasMeta c v) = rc c ∧ metaBit (setHasMeta c v) = (if v then 1 else 0) ∧
    finBit (setHasMeta c v) = finBit c ∧ setHasMeta c v < 2 ^ 16 := by
  unfold setHasMeta rc finBit metaBit
  simp only [hM]
  cases v <;> simp only [Bool.false_eq_true, if_false, if_true] <;> split <;> omega

theorem setDropped_spec (t : Nat) (v : Bool) :
    dropped (setDropped t v) = v ∧ mark (setDropped t v) = mark t := by
  unfold setDropped dropped mark
  simp only [hM]
  cases v <;> simp <;> omega

/-- A live count is never mistaken for "dropped": the reserved value is not reachable by counting. -/
theorem counting_never_dropped (t : Nat) (h : tc t ≤ Consts.rcMax) : dropped t = false := by
  unfold dropped tc at *; simp only [hM, hMax] at *; simp; omega

/-- The weak word at its limit. -/
theorem incrWeak_saturates (m : Nat) (h : weak m = Consts.weakMax) : incrWeak m = (m, false) := by
  unfold incrWeak weak at *; simp [h]

theorem incrWeak_exact (m : Nat) (hw : m < 2 ^ 16) (h : weak m < Consts.weakMax) :
    (incrWeak m).2 = true ∧ weak (incrWeak m).1 = weak m + 1 ∧
    accBit (incrWeak m).1 = accBit m ∧ (incrWeak m).1 < 2 ^ 16 := by
  unfold incrWeak weak accBit at *
  simp only [hW, hWMax] at *
  split
  · omega
  · simp only [true_and]; omega

theorem decrWeak_exact (m : Nat) (h : 0 < weak m) :
    (decrWeak m).2 = true ∧ weak (decrWeak m).1 = weak m - 1 ∧ accBit (decrWeak m).1 = accBit m := by
  unfold decrWeak weak accBit at *
  simp only [hW] at *
  split
  · omega
  · simp only [true_and]; omega

theorem setAccessible_spec (m : Nat) (v : Bool) (hw : m < 2 ^ 16) :
    weak (setAccessible m v) = weak m ∧ accBit (setAccessible m v) = (if v then 1 else 0) ∧
    setAccessible m v < 2 ^ 16 := by
  unfold setAccessible weak accBit
  simp only [hW]
  cases v <;> simp only [Bool.false_eq_true, if_false, if_true] <;> split <;> omega

/-- Non-vacuity: a word with both flags set and the count one below the limit. -/
example : rc 65533 = 16381 ∧ finalized 65533 = true ∧ hasMeta 65533 = true ∧
    (incrCounter 65533) = (65534, true) ∧ incrCounter 65534 = (65534, false) := by decide

/-! ### Machine level: at the limit the operation panics and the count is unchanged -/
open World in
/-- `Cc::clone` at `MAX`: the machine only starts unwinding; heap, buffer and tables are untouched. -/
theorem clone_at_max_raises (c : Cfg) (w : World) (self wc : Option Id) (k : Nat) (r : CRef) (x : Id)
    (hr : w.resolveC self r = some x) (hk : ¬ ((w.getH k).isSome = true ∨ k ≥ w.H.length))
    (hmax : (w.heap x).rc ≥ c.rcMax) :
    execOp c w self wc (.clone r k) = w.raise := by
  have : w.canClone c x = false := by unfold canClone; simp; omega
  simp [execOp, hr, hk, this]

open World in
/-- `Weak::upgrade` at `MAX`: same. -/
theorem upgrade_at_max_raises (c : Cfg) (w : World) (self wc : Option Id) (k i : Nat) (x : Id)
    (hc : c.weak = true) (hw : w.getW i = some (.to x)) (hk : ¬ ((w.getH k).isSome = true ∨ k ≥ w.H.length))
    (hs : w.weakStrong (.to x) ≠ 0) (hmax : (w.heap x).rc ≥ c.rcMax) :
    execOp c w self wc (.up (.w i) k) = w.raise := by
  have : w.canClone c x = false := by unfold canClone; simp; omega
  simp [execOp, hc, resolveW, hw, hk, hs, this]

open World in
/-- A panic keeps every count: `raise` changes only the mode. -/
theorem raise_changes_nothing (w : World) : w.raise.heap = w.heap ∧ w.raise.metas = w.metas ∧ w.raise.pc = w.pc := by
  unfold raise; split <;> simp

/-! ### Every reachable world -/

/-- **Counts never wrap and never spill into the flag bits**: in every reachable world — any sequence of operations,
callbacks, bulk clones, caught panics — every strong count is at most `MAX` (16382) and every weak count at most the weak
`MAX` (32767); so the words of `src/counter_marker.rs` / `weak_counter_marker.rs` always hold a count below the reserved
value, next to intact flag bits (`incr_exact`, `setFinalized_spec`, …). -/
theorem counts_within_limits (c : Cfg) (nH nW nK : Nat) (w : World) (h1 : 1 ≤ c.rcMax) (h2 : 1 ≤ c.weakMax)
    (h : Reachable c nH nW nK w) (x : Id) : (w.heap x).rc ≤ c.rcMax ∧ (w.metas x).weak ≤ c.weakMax :=
  ⟨(reachable_maxOk h1 h2 h).1 x, (reachable_maxOk h1 h2 h).2 x⟩

/-- The regenerated limits satisfy the hypotheses. -/
example : 1 ≤ Consts.rcMax ∧ 1 ≤ Consts.weakMax := by decide

end RustCc.C16
