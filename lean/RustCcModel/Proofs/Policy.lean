import RustCcModel.Model.Policy
/-! Proofs about the threshold policy (`Model/Policy.lean`). -/
namespace Policy

/-- "Is `D` times a power of two." -/
def IsDPow (D t : Nat) : Prop := ∃ k, t = D * 2 ^ k

theorem IsDPow.double {D t : Nat} (h : IsDPow D t) : IsDPow D (t * 2) := by
  obtain ⟨k, rfl⟩ := h; exact ⟨k + 1, by rw [Nat.pow_succ, Nat.mul_assoc]⟩

theorem IsDPow.half {D t : Nat} (h : IsDPow D t) (hD : 0 < D) (hgt : D < t / 2) : IsDPow D (t / 2) := by
  obtain ⟨k, rfl⟩ := h
  cases k with
  | zero => simp at hgt; omega
  | succ k => exact ⟨k, by rw [Nat.pow_succ, ← Nat.mul_assoc, Nat.mul_div_cancel _ (by decide : 0 < 2)]⟩

theorem IsDPow.ge {D t : Nat} (h : IsDPow D t) : D ≤ t := by
  obtain ⟨k, rfl⟩ := h
  exact Nat.le_mul_of_pos_right D (Nat.two_pow_pos k)

/-! ### grow -/

theorem grow_spec (D : Nat) : ∀ (fuel alloc thr : Nat), IsDPow D thr → 0 < thr → thr ≤ alloc →
    alloc < thr * 2 ^ fuel →
    IsDPow D (grow fuel alloc thr) ∧ alloc < grow fuel alloc thr ∧ grow fuel alloc thr / 2 ≤ alloc := by
  intro fuel
  induction fuel with
  | zero => intro alloc thr _ _ h1 h2; simp at h2; omega
  | succ f ih =>
    intro alloc thr hp hpos hle hlt
    unfold grow
    by_cases h : alloc < thr * 2
    · rw [if_pos h]
      exact ⟨hp.double, h, by omega⟩
    · rw [if_neg h]
      apply ih alloc (thr * 2) hp.double (by omega) (by omega)
      rw [Nat.pow_succ] at hlt
      rw [Nat.mul_assoc, Nat.mul_comm 2]; exact hlt

/-! ### shrink -/

theorem shrink_spec (D : Nat) (hD : 0 < D) : ∀ (fuel alloc num den thr : Nat), IsDPow D thr →
    alloc < thr → thr ≤ D * 2 ^ fuel →
    let r := shrink D fuel alloc num den thr
    IsDPow D r ∧ alloc < r ∧ (r * num < alloc * den ∨ r / 2 ≤ alloc ∨ r = D) := by
  intro fuel
  induction fuel with
  | zero =>
    intro alloc num den thr hp hlt hb
    simp at hb
    have := hp.ge
    have : thr = D := by omega
    simp only [shrink]
    exact ⟨hp, hlt, Or.inr (Or.inr this)⟩
  | succ f ih =>
    intro alloc num den thr hp hlt hb
    simp only
    unfold shrink
    by_cases hc : alloc * den ≤ thr * num
    · rw [if_pos hc]
      by_cases h1 : thr / 2 ≤ alloc
      · rw [if_pos h1]; exact ⟨hp, hlt, Or.inr (Or.inl h1)⟩
      · rw [if_neg h1]
        by_cases h2 : thr / 2 ≤ D
        · rw [if_pos h2]
          exact ⟨⟨0, by simp⟩, by omega, Or.inr (Or.inr rfl)⟩
        · rw [if_neg h2]
          have hh := hp.half hD (by omega)
          apply ih alloc num den (thr / 2) hh (by omega)
          rw [Nat.pow_succ, ← Nat.mul_assoc] at hb
          omega
    · rw [if_neg hc]
      exact ⟨hp, hlt, Or.inl (by omega)⟩

/-- C15, threshold part. After `adjust` (run with enough fuel, which the unbounded loops of the
code have): the threshold is `D·2^k`, at least `D`, strictly above the allocated bytes, and — when
`percent·thr ≠ 0` — not needlessly high. -/
theorem adjust_spec (D fuel alloc num den thr : Nat) (hD : 0 < D) (hp : IsDPow D thr)
    (hfuel1 : alloc < thr * 2 ^ fuel) (hfuel2 : thr ≤ D * 2 ^ fuel) :
    let r := adjust D fuel alloc num den thr
    IsDPow D r ∧ D ≤ r ∧ alloc < r ∧
      (r * num ≠ 0 → (r * num < alloc * den ∨ r / 2 ≤ alloc ∨ r = D)) := by
  simp only
  have hpos : 0 < thr := Nat.lt_of_lt_of_le hD hp.ge
  unfold adjust
  by_cases h1 : thr ≤ alloc
  · rw [if_pos h1]
    obtain ⟨a, b, c⟩ := grow_spec D fuel alloc thr hp hpos h1 hfuel1
    exact ⟨a, a.ge, b, fun _ => Or.inr (Or.inl c)⟩
  · rw [if_neg h1]
    by_cases h2 : thr * num = 0
    · rw [if_pos h2]
      exact ⟨hp, hp.ge, by omega, fun h => absurd h2 h⟩
    · rw [if_neg h2]
      obtain ⟨a, b, c⟩ := shrink_spec D hD fuel alloc num den thr hp (by omega) hfuel2
      exact ⟨a, a.ge, b, fun _ => c⟩

/-- Enough fuel always exists (so the model's fuel hides no bound): `alloc + thr` works. -/
theorem fuel_exists (D alloc thr : Nat) (hD : 0 < D) (hp : IsDPow D thr) :
    alloc < thr * 2 ^ (alloc + thr) ∧ thr ≤ D * 2 ^ (alloc + thr) := by
  have hpos : 0 < thr := Nat.lt_of_lt_of_le hD hp.ge
  have h2 : alloc + thr < 2 ^ (alloc + thr) := Nat.lt_two_pow_self
  constructor
  · calc alloc < 2 ^ (alloc + thr) := by omega
      _ ≤ thr * 2 ^ (alloc + thr) := Nat.le_mul_of_pos_left _ hpos
  · calc thr ≤ 2 ^ (alloc + thr) := by omega
      _ ≤ D * 2 ^ (alloc + thr) := Nat.le_mul_of_pos_left _ hD

/-- C15, trigger part: the decision is exactly the documented disjunction. -/
theorem shouldCollect_iff (auto : Bool) (alloc thr buffered : Nat) (bufThr : Option Nat) :
    shouldCollect auto alloc thr buffered bufThr = true ↔
      auto = true ∧ (thr < alloc ∨ ∃ b, bufThr = some b ∧ b < buffered) := by
  unfold shouldCollect
  cases bufThr <;> simp


/-! ### The loop the code runs (`f64` product): same shape, with the comparison as computed -/

theorem shrinkF_spec (D : Nat) (hD : 0 < D) : ∀ (fuel alloc bits thr : Nat), IsDPow D thr →
    alloc < thr → thr ≤ D * 2 ^ fuel →
    let r := shrinkF D fuel alloc bits thr
    IsDPow D r ∧ alloc < r ∧ (leProduct alloc r bits = false ∨ r / 2 ≤ alloc ∨ r = D) := by
  intro fuel
  induction fuel with
  | zero =>
    intro alloc bits thr hp hlt hb
    simp at hb
    have := hp.ge
    have : thr = D := by omega
    simp only [shrinkF]
    exact ⟨hp, hlt, Or.inr (Or.inr this)⟩
  | succ f ih =>
    intro alloc bits thr hp hlt hb
    simp only
    unfold shrinkF
    by_cases hc : leProduct alloc thr bits = true
    · rw [if_pos hc]
      by_cases h1 : thr / 2 ≤ alloc
      · rw [if_pos h1]; exact ⟨hp, hlt, Or.inr (Or.inl h1)⟩
      · rw [if_neg h1]
        by_cases h2 : thr / 2 ≤ D
        · rw [if_pos h2]
          exact ⟨⟨0, by simp⟩, by omega, Or.inr (Or.inr rfl)⟩
        · rw [if_neg h2]
          have hh := hp.half hD (by omega)
          apply ih alloc bits (thr / 2) hh (by omega)
          rw [Nat.pow_succ, ← Nat.mul_assoc] at hb
          omega
    · rw [if_neg hc]
      exact ⟨hp, hlt, Or.inl (by simpa using hc)⟩

/-- `adjust` as the code computes it: power-of-two multiple of `D`, at least `D`, strictly above the
allocated bytes, and — when the computed product is non-zero — not needlessly high: the computed
comparison `allocated <= thr * percent` is false, or halving would not keep it above, or it is `D`. -/
theorem adjustF_spec (D fuel alloc bits thr : Nat) (hD : 0 < D) (hp : IsDPow D thr)
    (hfuel1 : alloc < thr * 2 ^ fuel) (hfuel2 : thr ≤ D * 2 ^ fuel) :
    let r := adjustF D fuel alloc bits thr
    IsDPow D r ∧ D ≤ r ∧ alloc < r ∧
      (productUnits thr bits ≠ 0 → thr ≤ alloc ∨ (leProduct alloc r bits = false ∨ r / 2 ≤ alloc ∨ r = D)) := by
  simp only
  have hpos : 0 < thr := Nat.lt_of_lt_of_le hD hp.ge
  unfold adjustF
  by_cases h1 : thr ≤ alloc
  · rw [if_pos h1]
    obtain ⟨a, b, _⟩ := grow_spec D fuel alloc thr hp hpos h1 hfuel1
    exact ⟨a, a.ge, b, fun _ => Or.inl h1⟩
  · rw [if_neg h1]
    by_cases h2 : productUnits thr bits = 0
    · rw [if_pos h2]
      exact ⟨hp, hp.ge, by omega, fun h => absurd h2 h⟩
    · rw [if_neg h2]
      obtain ⟨a, b, c⟩ := shrinkF_spec D hD fuel alloc bits thr hp (by omega) hfuel2
      exact ⟨a, a.ge, b, fun _ => Or.inr c⟩

/-- The fuel the machine gives always suffices. -/
theorem fuelFor_suffices (D alloc thr : Nat) (hD : 0 < D) (hp : IsDPow D thr) :
    alloc < thr * 2 ^ (fuelFor alloc thr) ∧ thr ≤ D * 2 ^ (fuelFor alloc thr) := by
  obtain ⟨h1, h2⟩ := fuel_exists D alloc thr hD hp
  unfold fuelFor
  have hpos : 0 < thr := Nat.lt_of_lt_of_le hD hp.ge
  constructor
  · calc alloc < thr * 2 ^ (alloc + thr) := h1
      _ ≤ thr * 2 ^ (alloc + thr + 1) := Nat.mul_le_mul_left _ (Nat.pow_le_pow_right (by decide) (by omega))
  · calc thr ≤ D * 2 ^ (alloc + thr) := h2
      _ ≤ D * 2 ^ (alloc + thr + 1) := Nat.mul_le_mul_left _ (Nat.pow_le_pow_right (by decide) (by omega))

end Policy
