import RustCcModel.Properties.C03
#print axioms RustCc.C03.freeBox_spec
#print axioms RustCc.C03.destroyLast_order
#print axioms RustCc.C03.dropValue_marks_dead
#print axioms RustCc.C03.dealloc_free_loop_events
#print axioms RustCc.C03.newCyclic_guard_no_drop
