/-! # Pointer-level model of `src/lists.rs`

The intrusive lists of the collector: `LinkedList` (doubly linked, `first`), `PossibleCycles` (the same with a cached
`size`) and `LinkedQueue` (singly linked, `first`/`last`). The links live in the boxes themselves (`CcBox::next`,
`CcBox::prev`), together with the mark and the tracing counter that `remove_first`, `poll` and `mark_self_and_append`
write. Every function below follows the Rust function of the same name statement by statement; the unbounded
`for elem in self.iter()` of `mark_self_and_append` takes fuel.

`Proofs/Lists.lean` shows that these functions refine operations on plain `List`s — which is what `Model/Machine.lean`
uses for the buffer and the collector's lists. -/
namespace RustCc.Lists

/-- The fields of a `CcBox` the lists read and write. `mark`: 0 = NonMarked, 1 = PossibleCycles, 2 = InList, 3 = InQueue. -/
structure Node where
  next : Option Nat := none
  prev : Option Nat := none
  mark : Nat := 0
  tc : Nat := 0
  deriving DecidableEq, Repr, Inhabited

abbrev Mem := Nat → Node

def Mem.upd (m : Mem) (x : Nat) (f : Node → Node) : Mem := fun y => if y = x then f (m y) else m y
def Mem.setNext (m : Mem) (x : Nat) (v : Option Nat) : Mem := m.upd x fun n => { n with next := v }
def Mem.setPrev (m : Mem) (x : Nat) (v : Option Nat) : Mem := m.upd x fun n => { n with prev := v }
def Mem.setMark (m : Mem) (x : Nat) (v : Nat) : Mem := m.upd x fun n => { n with mark := v }
def Mem.resetTc (m : Mem) (x : Nat) : Mem := m.upd x fun n => { n with tc := 0 }

/-! ### `LinkedList` -/

/-- `LinkedList::add` -/
def llAdd (m : Mem) (first : Option Nat) (x : Nat) : Mem × Option Nat :=
  match first with
  | some f => ((m.setPrev f (some x)).setNext x (some f), some x)
  | none => (m, some x)

/-- `LinkedList::remove` -/
def llRemove (m : Mem) (first : Option Nat) (x : Nat) : Mem × Option Nat :=
  match (m x).next, (m x).prev with
  | some nx, some pv =>
    -- ptr is in between two elements
    ((((m.setPrev nx (some pv)).setNext pv (some nx)).setNext x none).setPrev x none, first)
  | some nx, none =>
    -- ptr is the first element
    ((m.setPrev nx none).setNext x none, some nx)
  | none, some pv =>
    -- ptr is the last element
    ((m.setNext pv none).setPrev x none, first)
  | none, none =>
    -- ptr is the only one in the list
    (m, none)

/-- `LinkedList::remove_first` -/
def llRemoveFirst (m : Mem) (first : Option Nat) : Mem × Option Nat × Option Nat :=
  match first with
  | some f =>
    let nf := (m f).next
    let m := match nf with
      | some nx => m.setPrev nx none
      | none => m
    let m := m.setNext f none
    let m := m.setMark f 0
    (m, nf, some f)
  | none => (m, none, none)

/-- `impl Drop for LinkedList`: `while self.remove_first().is_some() {}` -/
def llDrop (m : Mem) (first : Option Nat) : Nat → Mem × Option Nat
  | 0 => (m, first)
  | fuel + 1 =>
    match llRemoveFirst m first with
    | (m', f', some _) => llDrop m' f' fuel
    | (m', f', none) => (m', f')

/-- `Iter`: the elements reached from `first` through `next`. -/
def walk (m : Mem) (first : Option Nat) : Nat → List Nat
  | 0 => []
  | fuel + 1 =>
    match first with
    | some x => x :: walk m (m x).next fuel
    | none => []

/-! ### `PossibleCycles`: the same list with a cached size -/

structure PC where
  first : Option Nat := none
  size : Nat := 0
  deriving DecidableEq, Repr, Inhabited

def pcAdd (m : Mem) (p : PC) (x : Nat) : Mem × PC :=
  let r := llAdd m p.first x
  (r.1, { first := r.2, size := p.size + 1 })

def pcRemove (m : Mem) (p : PC) (x : Nat) : Mem × PC :=
  let r := llRemove m p.first x
  (r.1, { first := r.2, size := p.size - 1 })

def pcRemoveFirst (m : Mem) (p : PC) : Mem × PC × Option Nat :=
  match p.first with
  | some _ =>
    let r := llRemoveFirst m p.first
    (r.1, { first := r.2.1, size := p.size - 1 }, r.2.2)
  | none => (m, p, none)

/-- The loop of `mark_self_and_append`: reset the tracing counter of and mark every element, remember the last one. -/
def markAll (m : Mem) (mark : Nat) (cur : Option Nat) (last : Nat) : Nat → Mem × Nat
  | 0 => (m, last)
  | fuel + 1 =>
    match cur with
    | some e =>
      let nx := (m e).next
      markAll ((m.resetTc e).setMark e mark) mark nx e fuel
    | none => (m, last)

/-- `PossibleCycles::mark_self_and_append(mark, to_append, to_append_size)` -/
def pcMarkSelfAndAppend (m : Mem) (p : PC) (mark : Nat) (app : Option Nat) (appSize : Nat) (fuel : Nat) : Mem × PC :=
  match p.first with
  | some f =>
    let r := markAll m mark (some f) f fuel
    let m := match app with
      | some a => (r.1.setNext r.2 app).setPrev a (some r.2)
      | none => r.1
    (m, { first := p.first, size := p.size + appSize })
  | none => (m, { first := app, size := p.size + appSize })

/-- `PossibleCycles::swap_list(to_swap, to_swap_size)` -/
def pcSwap (p : PC) (l : Option Nat) (lSize : Nat) : PC × Option Nat :=
  ({ first := l, size := lSize }, p.first)

/-! ### `LinkedQueue` -/

structure Q where
  first : Option Nat := none
  last : Option Nat := none
  deriving DecidableEq, Repr, Inhabited

/-- `LinkedQueue::add` -/
def qAdd (m : Mem) (q : Q) (x : Nat) : Mem × Q :=
  match q.last with
  | some l => (m.setNext l (some x), { first := q.first, last := some x })
  | none => (m, { first := some x, last := some x })

/-- `LinkedQueue::poll` -/
def qPoll (m : Mem) (q : Q) : Mem × Q × Option Nat :=
  match q.first with
  | some f =>
    let nf := (m f).next
    let last := if nf.isNone then none else q.last
    let m := m.setNext f none
    let m := m.setMark f 0
    (m, { first := nf, last := last }, some f)
  | none => (m, q, none)

def qDrop (m : Mem) (q : Q) : Nat → Mem × Q
  | 0 => (m, q)
  | fuel + 1 =>
    match qPoll m q with
    | (m', q', some _) => qDrop m' q' fuel
    | (m', q', none) => (m', q')

/-! ### A world with two `LinkedList`s, the buffer and a queue, and the operations the driver runs -/

structure LW where
  mem : Mem := fun _ => {}
  l0 : Option Nat := none
  l1 : Option Nat := none
  pc : PC := {}
  q : Q := {}
  n : Nat := 0
  ret : Option (Option Nat) := none

inductive LOp
  | llAdd (i : Bool) (x : Nat)
  | llRemove (i : Bool) (x : Nat)
  | llRemoveFirst (i : Bool)
  | llDrop (i : Bool)
  | pcAdd (x : Nat)
  | pcRemove (x : Nat)
  | pcRemoveFirst
  | pcAppend (i : Bool) (mark : Nat)
  | pcSwap (i : Bool)
  | qAdd (x : Nat)
  | qPoll
  | qDrop
  | mark (x : Nat) (m : Nat)
  | incTc (x : Nat)
  deriving DecidableEq, Repr, Inhabited

def LW.getL (w : LW) (i : Bool) : Option Nat := if i then w.l1 else w.l0
def LW.setL (w : LW) (i : Bool) (v : Option Nat) : LW := if i then { w with l1 := v } else { w with l0 := v }

/-- Members of each structure, by walking the links. -/
def LW.members (w : LW) (first : Option Nat) : List Nat := walk w.mem first (w.n + 1)

/-- `x` is linked into none of the four structures. -/
def LW.free (w : LW) (x : Nat) : Bool :=
  decide (x < w.n) && !(w.members w.l0).contains x && !(w.members w.l1).contains x &&
    !(w.members w.pc.first).contains x && !(w.members w.q.first).contains x

/-- Run one operation. An operation whose precondition does not hold (the Rust functions are `unsafe` to call then, or
debug-assert) is skipped: nothing changes. -/
def LW.stepC (w : LW) (op : LOp) : LW :=
  match op with
  | .llAdd i x =>
    if w.free x then
      let r := llAdd w.mem (w.getL i) x
      ({ w with mem := r.1 }.setL i r.2)
    else w
  | .llRemove i x =>
    if (w.members (w.getL i)).contains x then
      let r := llRemove w.mem (w.getL i) x
      ({ w with mem := r.1 }.setL i r.2)
    else w
  | .llRemoveFirst i =>
    let r := llRemoveFirst w.mem (w.getL i)
    ({ w with mem := r.1, ret := some r.2.2 }.setL i r.2.1)
  | .llDrop i =>
    let r := llDrop w.mem (w.getL i) (w.n + 1)
    ({ w with mem := r.1 }.setL i r.2)
  | .pcAdd x =>
    if w.free x then
      let r := pcAdd w.mem w.pc x
      { w with mem := r.1, pc := r.2 }
    else w
  | .pcRemove x =>
    if (w.members w.pc.first).contains x then
      let r := pcRemove w.mem w.pc x
      { w with mem := r.1, pc := r.2 }
    else w
  | .pcRemoveFirst =>
    let r := pcRemoveFirst w.mem w.pc
    { w with mem := r.1, pc := r.2.1, ret := some r.2.2 }
  | .pcAppend i mark =>
    if mark < 4 then
      let r := pcMarkSelfAndAppend w.mem w.pc mark (w.getL i) (w.members (w.getL i)).length (w.n + 1)
      ({ w with mem := r.1, pc := r.2 }.setL i none)
    else w
  | .pcSwap i =>
    let r := pcSwap w.pc (w.getL i) (w.members (w.getL i)).length
    ({ w with pc := r.1 }.setL i r.2)
  | .qAdd x =>
    if w.free x then
      let r := qAdd w.mem w.q x
      { w with mem := r.1, q := r.2 }
    else w
  | .qPoll =>
    let r := qPoll w.mem w.q
    { w with mem := r.1, q := r.2.1, ret := some r.2.2 }
  | .qDrop =>
    let r := qDrop w.mem w.q (w.n + 1)
    { w with mem := r.1, q := r.2 }
  | .mark x mv =>
    if x < w.n ∧ mv < 4 then { w with mem := w.mem.setMark x mv } else w
  | .incTc x =>
    if x < w.n then { w with mem := w.mem.upd x (fun n => { n with tc := n.tc + 1 }) } else w

/-- One operation of the driver: `ret` is what `remove_first` / `poll` returned, if that was the operation. -/
def LW.step (w : LW) (op : LOp) : LW := LW.stepC { w with ret := none } op

end RustCc.Lists
