import RustCcModel.Model.Protocol
import RustCcModel.Proofs.InvDefs
/-! Debug driver: runs programs like `Main`, checking executable invariants after every micro-step. -/
open RustCc

def countsViolation (w : World) : Option String :=
  let bad := (List.range (w.next + 3)).filterMap fun x =>
    let o := w.heap x
    if x < w.next then
      if o.boxLive && decide (refs w x > o.rc) then some s!"le:{x}:refs={refs w x}:rc={o.rc}" else none
    else if refs w x != 0 then some s!"fresh:{x}" else none
  let fr := w.stack.filterMap fun f => if f.ids.any (fun i => decide (i ≥ w.next)) then some "frames" else none
  let pcb := if w.pc.any (fun i => decide (i ≥ w.next)) then ["pcb"] else []
  match bad ++ fr ++ pcb with
  | [] => none
  | l => some (" ".intercalate l)

def invViolation (w : World) : Option String :=
  let ids := List.range (w.next + 3)
  let L := listed w.stack
  let Z := zeroed w.stack
  let per := ids.filterMap fun x =>
    let o := w.heap x
    let errs : List String :=
      (if decide (refs w x > o.rc) then [s!"leAll:{x}"] else []) ++
      (if decide (o.mark = .pc) != decide (x ∈ w.pc) then [s!"mPc:{x}"] else []) ++
      (if decide (x ∈ w.pc) && decide (o.tc ≠ 0) then [s!"tc0:{x}:{o.tc}"] else []) ++
      (if decide (o.mark = .inQueue) then [s!"noQueue:{x}"] else []) ++
      (if decide (o.mark = .inList) != decide (x ∈ L) then [s!"mList:{x}"] else []) ++
      (if !o.boxLive && (decide (o.rc ≠ 0) || decide (o.mark ≠ .non)) then [s!"dead:{x}"] else []) ++
      (if decide (x ∈ Z) && (!o.boxLive || decide (o.rc ≠ 0) || decide (o.mark ≠ .non)) then [s!"zero:{x}:{o.rc}"] else []) ++
      (if decide (x ∈ cycs w.stack) && o.valLive then [s!"cyc:{x}"] else []) ++
      (if decide (x ∈ L) && !o.boxLive then [s!"listedLive:{x}"] else []) ++
      (if decide (x ∈ pinned w.stack) && decide (x ∈ L) then [s!"pin:{x}"] else []) ++
      (if decide (x ≥ w.next) && o.boxLive then [s!"fresh:{x}"] else [])
    match errs with
    | [] => none
    | l => some (" ".intercalate l)
  let glob : List String :=
    (if decide (w.pc.Nodup) then [] else ["pcNodup"]) ++
    (if decide ((Z ++ L).Nodup) then [] else ["ownNodup"]) ++
    (if stackWF w.stack then [] else ["wf"])
  match per ++ glob with
  | [] => none
  | l => some (" ".intercalate l)

def doomViolation (c : Cfg) (w : World) : Option String :=
  let ids := List.range w.next
  let per := ids.filterMap fun x =>
    let o := w.heap x
    let errs : List String :=
      (if o.doomed && decide ((optIds w.H).count x ≠ 0 ∨ w.stash x ≠ 0) then [s!"D1a:{x}"] else []) ++
      (if o.doomed && ids.any (fun u => decide (x ∈ fieldsOf (w.heap u)) && !(w.heap u).doomed) then [s!"D1b:{x}"] else []) ++
      (if o.doomed && w.stack.any (fun f => decide (x ∈ f.holds) && (match f with | .dropCc _ => false | _ => true)) then [s!"D1c:{x}"] else []) ++
      (if o.boxLive && !o.valLive && !o.doomed && decide (o.rc ≠ 0) then [s!"D2:{x}"] else []) ++
      (if o.doomed && c.fin && !o.finalized then [s!"D3:{x}"] else [])
    match errs with
    | [] => none
    | l => some (" ".intercalate l)
  match per with
  | [] => none
  | l => some (" ".intercalate l)

def anyViolation (c : Cfg) (w : World) : Option String :=
  match countsViolation w, invViolation w, doomViolation c w with
  | none, none, none => none
  | a, b, d => some (a.getD "" ++ " " ++ b.getD "" ++ " " ++ d.getD "")

def anyViolationOld (w : World) : Option String :=
  match countsViolation w, invViolation w with
  | none, none => none
  | a, b => some (a.getD "" ++ " " ++ b.getD "")

def runChk (c : Cfg) : Nat → Nat → World → World × Option String
  | 0, _, w => (w, none)
  | fuel + 1, n, w =>
    if w.stack.isEmpty ∧ w.mode = .running then (w, none)
    else if w.mode = .aborted ∨ w.mode = .stuck then (w, none)
    else
      let w' := (step c w).compact
      match anyViolation c w' with
      | some v => (w', some v)
      | none => runChk c fuel (n + 1) w'

structure DState where
  cfg : Cfg := {}
  scripts : List (Nat × List Op) := []
  nH : Nat := 6
  nW : Nat := 4
  nK : Nat := 4
  world : World := {}
  name : String := ""

def kv (t : String) : Option (String × String) :=
  match t.splitOn "=" with
  | [a, b] => some (a, b)
  | _ => none

def buildScripts (l : List (Nat × List Op)) : Array (List Op) :=
  let n := l.foldl (fun m (i, _) => max m (i + 1)) 1
  l.foldl (fun (a : Array (List Op)) (i, ops) => a.setIfInBounds i ops) (Array.replicate n [])

partial def loop (h out : IO.FS.Stream) (st : DState) (bad : Nat) : IO Nat := do
  let line ← h.getLine
  if line.isEmpty then return bad
  let toks := splitToks line
  match toks with
  | "program" :: name => loop h out { cfg := {}, name := " ".intercalate name } bad
  | "feat" :: rest =>
    let c := rest.foldl (fun (c : Cfg) t =>
      match kv t with
      | some ("fin", v) => { c with fin := v = "1" } | some ("weak", v) => { c with weak := v = "1" }
      | some ("clean", v) => { c with clean := v = "1" } | some ("auto", v) => { c with auto := v = "1" } | _ => c) st.cfg
    loop h out { st with cfg := c } bad
  | "sizes" :: rest =>
    let c := rest.foldl (fun (c : Cfg) t =>
      match kv t with
      | some ("node", v) => { c with nodeSize := v.toNat?.getD 0 } | some ("map", v) => { c with mapSize := v.toNat?.getD 0 } | _ => c) st.cfg
    loop h out { st with cfg := c } bad
  | ["tables", a, b, d] => loop h out { st with nH := a.toNat?.getD 6, nW := b.toNat?.getD 4, nK := d.toNat?.getD 4 } bad
  | "script" :: i :: body =>
    match i.toNat?, parseScript body with
    | some i, some ops => loop h out { st with scripts := (i, ops) :: st.scripts } bad
    | _, _ => loop h out st bad
  | ["begin"] =>
    let c := { st.cfg with scripts := buildScripts st.scripts }
    loop h out { st with cfg := c, world := World.init c st.nH st.nW st.nK } bad
  | ["end"] => loop h out st bad
  | "consts" :: _ => loop h out st bad
  | _ =>
    match parseOp toks with
    | none => loop h out st bad
    | some op =>
      if st.world.mode = .aborted ∨ st.world.mode = .stuck then loop h out st bad else
      let w0 := { st.world with stack := [.script [op] none none true, .catchTop], events := [], ret := .ok }
      match anyViolation st.cfg w0 with
      | some v => do out.putStrLn s!"VIOLATION-at-start {st.name}: {v} op={line.trimAscii}"; loop h out st (bad + 1)
      | none =>
        let (w, v) := runChk st.cfg 200000 0 w0
        match v with
        | some v => do
          out.putStrLn s!"VIOLATION {st.name}: {v} op={line.trimAscii} top={repr (w.stack.head?)}"
          loop h out { st with world := { w with mode := .stuck } } (bad + 1)
        | none => loop h out { st with world := w } bad

def main : IO Unit := do
  let stdin ← IO.getStdin
  let stdout ← IO.getStdout
  let bad ← loop stdin stdout {} 0
  stdout.putStrLn s!"violations: {bad}"
