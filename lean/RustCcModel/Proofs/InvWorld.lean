import RustCcModel.Proofs.InvBlocks
import RustCcModel.Proofs.CountsReach
/-! The invariant blocks lifted to the world transformers of the machine, and the lists read off the stack. -/
namespace RustCc
open World
open T1 (Mark)

/-! ### Lists read off the stack -/

/-- Frames that own nothing and are not part of a collection pass. -/
def Frame.plain (f : Frame) : Bool :=
  f.listed.isEmpty && f.zeroed.isEmpty && f.cyc.isEmpty && f.pinned.isEmpty && !f.isPass

theorem listed_cons (f : Frame) (st : List Frame) : listed (f :: st) = f.listed ++ listed st := by simp [listed]
theorem zeroed_cons (f : Frame) (st : List Frame) : zeroed (f :: st) = f.zeroed ++ zeroed st := by simp [zeroed]
theorem cycs_cons (f : Frame) (st : List Frame) : cycs (f :: st) = f.cyc ++ cycs st := by simp [cycs]
theorem pinned_cons (f : Frame) (st : List Frame) : pinned (f :: st) = f.pinned ++ pinned st := by simp [pinned]

theorem Frame.plain_lists {f : Frame} (h : f.plain = true) :
    f.listed = [] ∧ f.zeroed = [] ∧ f.cyc = [] ∧ f.isPass = false ∧ f.pinned = [] := by
  unfold Frame.plain at h
  simp only [Bool.and_eq_true, List.isEmpty_iff, Bool.not_eq_true'] at h
  exact ⟨h.1.1.1.1, h.1.1.1.2, h.1.1.2, h.2, h.1.2⟩

theorem lists_append_plain (fs st : List Frame) (h : ∀ f ∈ fs, f.plain = true) :
    listed (fs ++ st) = listed st ∧ zeroed (fs ++ st) = zeroed st ∧ cycs (fs ++ st) = cycs st ∧
    stackWF (fs ++ st) = stackWF st ∧ pinned (fs ++ st) = pinned st := by
  induction fs with
  | nil => simp
  | cons f r ih =>
    have hp := Frame.plain_lists (h f (List.mem_cons_self ..))
    have ih' := ih (fun g hg => h g (List.mem_cons_of_mem _ hg))
    simp only [List.cons_append, listed_cons, zeroed_cons, cycs_cons, pinned_cons, hp.1, hp.2.1, hp.2.2.1, hp.2.2.2.2, List.nil_append,
      ih'.1, ih'.2.1, ih'.2.2.1, stackWF, hp.2.2.2.1, ih'.2.2.2.1, ih'.2.2.2.2]
    simp

theorem cycs_sub_zeroed (st : List Frame) : ∀ x ∈ cycs st, x ∈ zeroed st := by
  induction st with
  | nil => intro x hx; simp [cycs] at hx
  | cons f r ih =>
    intro x hx
    rw [cycs_cons] at hx; rw [zeroed_cons]
    rcases List.mem_append.1 hx with e | e
    · cases f <;> simp [Frame.cyc] at e
      subst e; simp [Frame.zeroed]
    · exact List.mem_append_right _ (ih x e)

/-! ### Cores of transformed worlds -/

theorem cores_upd (w : World) (x : Id) (F : Obj → Obj) : (w.upd x F).cores = setC w.cores x (F (w.heap x)).core := by
  funext y
  by_cases hy : y = x
  · subst hy; simp [World.cores, setC]
  · simp [World.cores, setC, hy, upd, Heap.set]

theorem cores_upd_neutral (w : World) (x : Id) (F : Obj → Obj) (hF : (F (w.heap x)).core = (w.heap x).core) :
    (w.upd x F).cores = w.cores := by
  rw [cores_upd, hF]
  funext y
  by_cases hy : y = x
  · subst hy; simp [World.cores, setC]
  · simp [setC, hy]

@[simp] theorem cores_setH (w : World) (k v) : (w.setH k v).cores = w.cores := rfl
@[simp] theorem cores_setW (w : World) (k v) : (w.setW k v).cores = w.cores := rfl
@[simp] theorem cores_setK (w : World) (k v) : (w.setK k v).cores = w.cores := rfl
@[simp] theorem cores_emit (w : World) (e) : (w.emit e).cores = w.cores := rfl
@[simp] theorem cores_push (w : World) (f) : (w.push f).cores = w.cores := rfl
@[simp] theorem cores_updMeta (w : World) (x f) : (w.updMeta x f).cores = w.cores := rfl
@[simp] theorem cores_raise (w : World) : w.raise.cores = w.cores := by unfold raise; split <;> rfl
@[simp] theorem cores_raiseLogged (w : World) : w.raiseLogged.cores = w.cores := by unfold raiseLogged; simp
@[simp] theorem cores_weakDrop (w : World) (r) : (w.weakDrop r).cores = w.cores := by
  unfold World.cores; rw [weakDrop_heap]
@[simp] theorem cores_dropMetadata (w : World) (x) : (w.dropMetadata x).cores = w.cores := by
  unfold dropMetadata; split
  · split <;> rfl
  · rfl
@[simp] theorem cores_initMeta (w : World) (x) : (w.initMeta x).cores = w.cores := by
  unfold initMeta; split
  · rfl
  · show (w.upd x fun o => { o with hasMeta := true }).cores = w.cores
    exact cores_upd_neutral w x _ rfl
@[simp] theorem cores_startCollect (w : World) : w.startCollect.cores = w.cores := rfl

@[simp] theorem pc_raise (w : World) : w.raise.pc = w.pc := by unfold raise; split <;> rfl
@[simp] theorem pc_raiseLogged (w : World) : w.raiseLogged.pc = w.pc := by unfold raiseLogged; simp
@[simp] theorem pc_dropMetadata (w : World) (x) : (w.dropMetadata x).pc = w.pc := by
  unfold dropMetadata; split
  · split <;> rfl
  · rfl
@[simp] theorem pc_initMeta (w : World) (x) : (w.initMeta x).pc = w.pc := by unfold initMeta; split <;> rfl
@[simp] theorem pc_setH (w : World) (k v) : (w.setH k v).pc = w.pc := rfl
@[simp] theorem pc_setW (w : World) (k v) : (w.setW k v).pc = w.pc := rfl
@[simp] theorem pc_setK (w : World) (k v) : (w.setK k v).pc = w.pc := rfl
@[simp] theorem pc_startCollect (w : World) : w.startCollect.pc = w.pc := rfl
@[simp] theorem pc_freeBox (w : World) (x) : (w.freeBox x).pc = w.pc := rfl

@[simp] theorem stack_raise (w : World) : w.raise.stack = w.stack := by unfold raise; split <;> rfl
@[simp] theorem stack_raiseLogged (w : World) : w.raiseLogged.stack = w.stack := by unfold raiseLogged; simp
@[simp] theorem stack_freeBox (w : World) (x) : (w.freeBox x).stack = w.stack := rfl

variable {L Z Cy : List Id}

/-- World-level form of the object invariant. -/
abbrev WOI (w : World) (L Z Cy : List Id) : Prop := OI w.cores w.pc L Z Cy

theorem WOI.same {w w' : World} (h : WOI w L Z Cy) (hc : w'.cores = w.cores) (hp : w'.pc = w.pc) : WOI w' L Z Cy := by
  unfold WOI; rw [hc, hp]; exact h

/-- An update that keeps what the invariant reads. -/
theorem WOI.updN {w : World} (h : WOI w L Z Cy) (x : Id) (F : Obj → Obj) (hF : (F (w.heap x)).core = (w.heap x).core) :
    WOI (w.upd x F) L Z Cy :=
  h.same (cores_upd_neutral w x F hF) rfl

/-- General update keeping mark, tracing counter and liveness of the box. -/
theorem WOI.upd {w : World} (h : WOI w L Z Cy) (x : Id) (F : Obj → Obj)
    (hm : (F (w.heap x)).mark = (w.heap x).mark) (ht : (F (w.heap x)).tc = (w.heap x).tc)
    (hb : (F (w.heap x)).boxLive = (w.heap x).boxLive)
    (hrc : ((w.heap x).boxLive = false ∨ x ∈ Z) → (F (w.heap x)).rc = 0)
    (hv : x ∈ Cy → (F (w.heap x)).valLive = false) : WOI (w.upd x F) L Z Cy := by
  unfold WOI
  rw [cores_upd]
  exact OI.set h x _ hm ht hb hrc hv

theorem WOI.removeFromList {w : World} (h : WOI w L Z Cy) (x : Id) : WOI (w.removeFromList x) L Z Cy := by
  unfold World.removeFromList
  split
  · rename_i hm
    show OI (w.upd x fun o => { o with mark := .non }).cores (w.pc.erase x) L Z Cy
    rw [cores_upd]
    exact OI.unbuffer h x hm
  · exact h

theorem WOI.addToList {w : World} (h : WOI w L Z Cy) (x : Id) (hb : (w.heap x).boxLive = true) (hz : x ∉ Z) :
    WOI (w.addToList x) L Z Cy := by
  unfold World.addToList
  split
  · exact h
  · rename_i hnp
    split
    · exact h
    · rename_i hs
      have hm : (w.heap x).mark = .non := by
        cases hmk : (w.heap x).mark <;> simp_all
      show OI (w.upd x fun o => { o with tc := 0, mark := .pc }).cores (x :: w.pc) L Z Cy
      rw [cores_upd]
      exact OI.buffer h x hm hb hz

/-- `Cc::clone` / upgrade of an object whose count is not 0. -/
theorem WOI.cloneOk {w : World} (h : WOI w L Z Cy) (x : Id) (hr : (w.heap x).rc ≠ 0) : WOI (w.cloneOk x) L Z Cy := by
  unfold World.cloneOk
  apply WOI.removeFromList
  apply WOI.upd h x _ rfl rfl rfl
  · intro hc
    rcases hc with hc | hc
    · exact absurd (OI.boxLive_of_rc h (x := x) hr) (by rw [show (w.cores x).boxLive = (w.heap x).boxLive from rfl, hc]; simp)
    · exact absurd hc (OI.not_mem_Z_of_rc h (x := x) hr)
  · intro hc; exact h.cyc x hc

/-- Decrementing a count. -/
theorem WOI.decr {w : World} (h : WOI w L Z Cy) (x : Id) : WOI (w.upd x fun o => { o with rc := o.rc - 1 }) L Z Cy := by
  apply WOI.upd h x _ rfl rfl rfl
  · intro hc
    show (w.heap x).rc - 1 = 0
    rcases hc with hc | hc
    · have := (h.dead x hc).1
      have e : (w.cores x).rc = (w.heap x).rc := rfl
      omega
    · have := (h.zero x hc).2.1
      have e : (w.cores x).rc = (w.heap x).rc := rfl
      omega
  · intro hc; exact h.cyc x hc

theorem cores_freeBox (w : World) (x : Id) : (w.freeBox x).cores = setC w.cores x (freedCore (w.cores x)) := by
  funext y
  by_cases hy : y = x
  · subst hy; simp [World.cores, setC, freeBox, upd, emit, Obj.core, freedCore]
  · simp [World.cores, setC, hy, freeBox, upd, emit, Heap.set]

theorem WOI.freeBox {w : World} (h : WOI w L Z Cy) (x : Id) (hm : (w.heap x).mark = .non) (hz : x ∉ Z) :
    WOI (w.freeBox x) L Z Cy := by
  unfold WOI
  rw [cores_freeBox]
  exact OI.free h x hm hz

end RustCc
