import RustCcModel.Proofs.InvFrames0
/-! The invariant `Inv` through the "neutral" frames of the machine (frames that own nothing). -/
namespace RustCc
open World
open T1 (Mark)

theorem Inv.raise' {w : World} (h : Inv w) : Inv w.raise :=
  h.step_same (cores_raise w) (pc_raise w) [] (by simp) (by simp)

theorem Inv.raiseLogged' {w : World} (h : Inv w) : Inv w.raiseLogged :=
  h.step_same (cores_raiseLogged w) (pc_raiseLogged w) [] (by simp) (by simp)

theorem stepFrame_inv_catchTop (c : Cfg) (w : World) (rest : List Frame) (hi : Inv w)
    (hs : w.stack = .catchTop :: rest) : Inv (stepFrame c { w with stack := rest } .catchTop) := by
  have h0 := hi.pop hs rfl
  simp only [stepFrame]
  exact h0

theorem stepFrame_inv_setRet (c : Cfg) (w : World) (r : Ret) (rest : List Frame) (hi : Inv w)
    (hs : w.stack = .setRet r :: rest) : Inv (stepFrame c { w with stack := rest } (.setRet r)) := by
  have h0 := hi.pop hs rfl
  simp only [stepFrame]
  inv_same h0 []

theorem stepFrame_inv_adjustAfter (c : Cfg) (w : World) (rest : List Frame) (hi : Inv w)
    (hs : w.stack = .adjustAfter :: rest) : Inv (stepFrame c { w with stack := rest } .adjustAfter) := by
  have h0 := hi.pop hs rfl
  simp only [stepFrame]
  inv_same h0 []

theorem stepFrame_inv_dropMoved (c : Cfg) (w : World) (x : Id) (rest : List Frame) (hi : Inv w)
    (hs : w.stack = .dropMoved x :: rest) : Inv (stepFrame c { w with stack := rest } (.dropMoved x)) := by
  have h0 := hi.pop hs rfl
  simp only [stepFrame]
  inv_same h0 [.dropFields x false]

theorem stepFrame_inv_actionEnd (c : Cfg) (w : World) (cap : Option Id) (unw : Bool) (rest : List Frame) (hi : Inv w)
    (hs : w.stack = .actionEnd cap unw :: rest) : Inv (stepFrame c { w with stack := rest } (.actionEnd cap unw)) := by
  have h0 := hi.pop hs rfl
  simp only [stepFrame]
  split
  · rename_i y
    inv_same h0 [.dropCc y, .actionEnd none unw]
  · split
    · inv_same h0 []
    · exact h0

theorem stepFrame_inv_callFin (c : Cfg) (w : World) (x : Id) (rest : List Frame) (hi : Inv w)
    (hs : w.stack = .callFin x :: rest) : Inv (stepFrame c { w with stack := rest } (.callFin x)) := by
  have h0 := hi.pop hs rfl
  simp only [stepFrame]
  split
  · exact h0
  · split
    · apply Inv.raiseLogged'
      inv_same h0 []
    · inv_same h0 [.script (c.script (w.heap x).fin) (some x) none]

theorem stepFrame_inv_dropMany (c : Cfg) (w : World) (x : Id) (n : Nat) (rest : List Frame) (hi : Inv w)
    (hs : w.stack = .dropMany x n :: rest) : Inv (stepFrame c { w with stack := rest } (.dropMany x n)) := by
  have h0 := hi.pop hs rfl
  cases n with
  | zero => simp only [stepFrame]; exact h0
  | succ n =>
    simp only [stepFrame]
    inv_same h0 [.dropCc x, .dropMany x n]

/-- Clearing `valLive` keeps the object invariant (the count of a freed or owned box is already 0). -/
theorem WOI.clearVal {w : World} {L Z Cy : List Id} (h : WOI w L Z Cy) (x : Id) :
    WOI (w.upd x fun o => { o with valLive := false }) L Z Cy := by
  apply WOI.upd h x _ rfl rfl rfl
  · intro hc
    show (w.heap x).rc = 0
    rcases hc with hc | hc
    · exact (h.dead x hc).1
    · exact (h.zero x hc).2.1
  · intro _; rfl

theorem stepFrame_inv_dropValue (c : Cfg) (w : World) (x : Id) (rest : List Frame) (hi : Inv w)
    (hs : w.stack = .dropValue x :: rest) : Inv (stepFrame c { w with stack := rest } (.dropValue x)) := by
  have h0 := hi.pop hs rfl
  have h1 := WOI.clearVal h0.oi x
  simp only [stepFrame]
  split
  · split
    · apply Inv.raiseLogged'
      exact h0.step (WOI.same h1 rfl rfl) [.dropFields x false] (by plain_tac) (by simp [push, emit, upd])
    · exact h0.step (WOI.same h1 rfl rfl) [.script (c.script (w.heap x).drp) (some x) none, .dropFields x false] (by plain_tac)
        (by simp [push, emit, upd])
  · exact h0.step (WOI.same h1 rfl rfl) [.dropActions x 0 false] (by plain_tac) (by simp [push, emit, upd])

theorem takeField_core {o o' : Obj} {fld : Field} (h : takeField o = (fld, o')) : o'.core = o.core := by
  unfold takeField at h
  split at h
  · simp only [Prod.mk.injEq] at h; obtain ⟨_, rfl⟩ := h; rfl
  · split at h
    · simp only [Prod.mk.injEq] at h; obtain ⟨_, rfl⟩ := h; rfl
    · split at h
      · simp only [Prod.mk.injEq] at h; obtain ⟨_, rfl⟩ := h; rfl
      · split at h
        · simp only [Prod.mk.injEq] at h; obtain ⟨_, rfl⟩ := h; rfl
        · simp only [Prod.mk.injEq] at h; obtain ⟨_, rfl⟩ := h; rfl

theorem stepFrame_inv_dropFields (c : Cfg) (w : World) (x : Id) (unw : Bool) (rest : List Frame) (hi : Inv w)
    (hs : w.stack = .dropFields x unw :: rest) : Inv (stepFrame c { w with stack := rest } (.dropFields x unw)) := by
  have h0 := hi.pop hs rfl
  simp only [stepFrame]
  split
  · rename_i y o' htf
    have h1 := WOI.updN h0.oi x (fun _ => o') (takeField_core htf)
    exact h0.step (WOI.same h1 rfl rfl) [.dropCc y, .dropFields x unw] (by plain_tac) (by simp [push, upd])
  · rename_i y o' htf
    have h1 := WOI.updN h0.oi x (fun _ => o') (takeField_core htf)
    exact h0.step (WOI.same h1 (by simp) (by simp [push, upd])) [.dropFields x unw] (by plain_tac) (by simp [push, upd])
  · split
    · inv_same h0 []
    · exact h0

theorem stepFrame_inv_dropActions (c : Cfg) (w : World) (m : Id) (i : Nat) (unw : Bool) (rest : List Frame) (hi : Inv w)
    (hs : w.stack = .dropActions m i unw :: rest) : Inv (stepFrame c { w with stack := rest } (.dropActions m i unw)) := by
  have h0 := hi.pop hs rfl
  simp only [stepFrame]
  split
  · split
    · rename_i a ha
      have h1 := WOI.updN h0.oi m (fun o => { o with aslots := o.aslots.set i none }) rfl
      split
      · apply Inv.raiseLogged'
        exact h0.step (WOI.same h1 rfl rfl) [.actionEnd a.cap false, .dropActions m (i + 1) unw] (by plain_tac)
          (by simp [push, emit, upd])
      · exact h0.step (WOI.same h1 rfl rfl) [.script (c.script a.script) none none, .actionEnd a.cap false, .dropActions m (i + 1) unw]
          (by plain_tac) (by simp [push, emit, upd])
    · inv_same h0 [.dropActions m (i + 1) unw]
  · split
    · inv_same h0 []
    · exact h0

theorem stepFrame_inv_cleanEnd (c : Cfg) (w : World) (m : Id) (byUs unw : Bool) (rest : List Frame) (hi : Inv w)
    (hs : w.stack = .cleanEnd m byUs unw :: rest) : Inv (stepFrame c { w with stack := rest } (.cleanEnd m byUs unw)) := by
  have h0 := hi.pop hs rfl
  simp only [stepFrame]
  split
  · have h1 := WOI.updN h0.oi m (fun o => { o with borrowed := false }) rfl
    exact h0.step (WOI.same h1 rfl rfl) [.dropCc m, .actionEnd none unw] (by plain_tac) (by simp [push, upd])
  · inv_same h0 [.dropCc m, .actionEnd none unw]

/-- Pushing a `collectPass` frame on a fresh `collectLoop` frame: neither owns anything, and the pass sits on its loop. -/
theorem Inv.pushPass {w : World} (h : Inv w) (n : Nat) (oldFin oldDrop : Bool) :
    Inv ((w.push (.collectLoop n oldFin oldDrop)).push .collectPass) := by
  have hst : ((w.push (.collectLoop n oldFin oldDrop)).push .collectPass).stack =
      .collectPass :: .collectLoop n oldFin oldDrop :: w.stack := rfl
  refine ⟨?_, ?_, ?_⟩
  · rw [hst]
    simp only [listed_cons, zeroed_cons, cycs_cons, Frame.listed, Frame.zeroed, Frame.cyc, List.nil_append]
    exact h.oi
  · rw [hst]
    simp only [stackWF, Frame.isPass, Frame.isLoop]
    simpa using h.wf
  · rw [hst]
    simp only [listed_cons, pinned_cons, Frame.listed, Frame.pinned, List.nil_append]
    exact h.pin

theorem stepFrame_inv_collectLoop (c : Cfg) (w : World) (n : Nat) (oldFin oldDrop : Bool) (rest : List Frame) (hi : Inv w)
    (hs : w.stack = .collectLoop n oldFin oldDrop :: rest) :
    Inv (stepFrame c { w with stack := rest } (.collectLoop n oldFin oldDrop)) := by
  have h0 := hi.pop hs rfl
  simp only [stepFrame]
  repeat' split
  all_goals first
    | exact h0.pushPass (n + 1) oldFin oldDrop
    | inv_same h0 []

theorem regInsert_tail_inv (c : Cfg) {w1 : World} (h : Inv w1) (m : Id) (k aid idx : Nat) (om' : Obj)
    (hcore : om'.core = (w1.heap m).core) :
    Inv (if (((w1.upd m fun _ => om').initMeta m).metas m).weak ≥ c.weakMax then ((w1.upd m fun _ => om').initMeta m).raise
      else (((((w1.upd m fun _ => om').initMeta m).updMeta m fun mm => { mm with weak := mm.weak + 1 }).removeFromList m).setK k
        (some (m, idx, aid)))) := by
  have h1 : WOI (w1.upd m fun _ => om') (listed w1.stack) (zeroed w1.stack) (cycs w1.stack) := WOI.updN h.oi m (fun _ => om') hcore
  have h2 : WOI ((w1.upd m fun _ => om').initMeta m) (listed w1.stack) (zeroed w1.stack) (cycs w1.stack) :=
    WOI.same h1 (by simp) (by simp)
  have hst : ((w1.upd m fun _ => om').initMeta m).stack = w1.stack := by simp
  split
  · apply Inv.raise'
    exact h.step h2 [] (by simp) (by simpa using hst)
  · have h3 : WOI (((w1.upd m fun _ => om').initMeta m).updMeta m fun mm => { mm with weak := mm.weak + 1 })
        (listed w1.stack) (zeroed w1.stack) (cycs w1.stack) := WOI.same h2 rfl rfl
    have h4 := WOI.removeFromList h3 m
    exact h.step (WOI.same h4 rfl rfl) [] (by simp) (by simp)

theorem stepFrame_inv_regInsert (c : Cfg) (w : World) (owner : Id) (script k : Nat) (cap : Option Id) (rest : List Frame)
    (hi : Inv w) (hs : w.stack = .regInsert owner script k cap :: rest) :
    Inv (stepFrame c { w with stack := rest } (.regInsert owner script k cap)) := by
  have h0 := hi.pop hs rfl
  simp only [stepFrame]
  split
  · inv_same h0 []
  · rename_i m hm
    split
    · apply Inv.raise'
      inv_same h0 [.actionEnd cap false]
    · have hw1 : Inv { ({ w with stack := rest } : World) with nextAid := w.nextAid + 1 } := by inv_same h0 []
      cases hfree : (w.heap m).afree with
      | nil =>
        simp only []
        exact regInsert_tail_inv c hw1 m k w.nextAid (w.heap m).aslots.length _ rfl
      | cons i fr =>
        simp only []
        exact regInsert_tail_inv c hw1 m k w.nextAid i _ rfl

end RustCc
