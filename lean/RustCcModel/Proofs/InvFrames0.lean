import RustCcModel.Proofs.InvOps
/-! Shared helpers for the frame steps of the invariant `Inv`. -/
namespace RustCc
open World
open T1 (Mark)

/-- Popping a plain frame keeps the invariant. -/
theorem Inv.pop {w : World} {f : Frame} {rest : List Frame} (hi : Inv w) (hs : w.stack = f :: rest) (hp : f.plain = true) :
    Inv { w with stack := rest } := by
  obtain ⟨h1, h2, h3, h4, h5⟩ := lists_append_plain [f] rest (by intro g hg; simp at hg; subst hg; exact hp)
  simp only [List.singleton_append] at h1 h2 h3 h4 h5
  have hoi := hi.oi
  have hwf := hi.wf
  have hpin := hi.pin
  rw [hs] at hoi hwf hpin
  rw [h1, h2, h3] at hoi
  rw [h4] at hwf
  rw [h1, h5] at hpin
  exact ⟨hoi, hwf, hpin⟩

/-- The popped world, for frames that are not plain: the parts of the invariant with the lists of the full stack. -/
theorem Inv.popped {w : World} {f : Frame} {rest : List Frame} (hi : Inv w) (hs : w.stack = f :: rest) :
    WOI { w with stack := rest } (f.listed ++ listed rest) (f.zeroed ++ zeroed rest) (f.cyc ++ cycs rest) ∧
    stackWF (f :: rest) = true ∧ (∀ x ∈ f.pinned ++ pinned rest, x ∉ f.listed ++ listed rest) := by
  have hoi := hi.oi
  have hwf := hi.wf
  have hpin := hi.pin
  rw [hs] at hoi hwf hpin
  rw [listed_cons, zeroed_cons, cycs_cons] at hoi
  rw [listed_cons, pinned_cons] at hpin
  exact ⟨hoi, hwf, hpin⟩

theorem stackWF_tail {f : Frame} {rest : List Frame} (h : stackWF (f :: rest) = true) : stackWF rest = true := by
  simp only [stackWF, Bool.and_eq_true] at h
  exact h.2

theorem cores_updAll_neutral0 (F : Obj → Obj) (hF : ∀ o, (F o).core = o.core) : ∀ (l : List Id) (w : World),
    (w.updAll l F).cores = w.cores
  | [], _ => rfl
  | x :: l, w => by
    show ((w.upd x F).updAll l F).cores = w.cores
    rw [cores_updAll_neutral0 F hF l (w.upd x F), cores_upd_neutral w x F (hF _)]

/-! ### `startDealloc` -/

theorem startDealloc_stack (c : Cfg) (w : World) (N : List Id) :
    (startDealloc c w N).stack = .deallocDrop N N w.dropping :: w.stack := by
  unfold startDealloc; simp only; split <;> simp [push]

theorem startDealloc_cores (c : Cfg) (w : World) (N : List Id) : (startDealloc c w N).cores = w.cores := by
  unfold startDealloc; simp only
  have h1 : ∀ W : World, (W.updAll N fun o => { o with doomed := true }).cores = W.cores :=
    fun W => cores_updAll_neutral0 (fun o : Obj => { o with doomed := true }) (fun _ => rfl) N W
  split
  · rw [cores_updAll_neutral0 (fun o : Obj => { o with dropped := true }) (fun _ => rfl) N, h1]; rfl
  · rw [h1]; rfl

theorem startDealloc_pc (c : Cfg) (w : World) (N : List Id) : (startDealloc c w N).pc = w.pc := by
  unfold startDealloc; simp only; split <;> simp [push]

end RustCc
