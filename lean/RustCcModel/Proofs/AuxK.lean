import RustCcModel.Proofs.CountsReach
/-! First half of `AuxX` (what exactness of the counts needs): the table index held by an allocation frame is
in range, in every reachable world. The tables never change their length. -/
namespace RustCc
open World

def Frame.kB (n : Nat) : Frame → Bool
  | .newAlloc k _ => decide (k < n)
  | .newCyclicAlloc k _ _ _ => decide (k < n)
  | .newCyclicEnd k _ _ _ => decide (k < n)
  | _ => true

/-- Every allocation frame on the stack names an existing table entry. -/
def KOk (w : World) : Prop := w.stack.all (Frame.kB w.H.length) = true

theorem Frame.kOk_of_kB {n : Nat} {f : Frame} (h : f.kB n = true) : f.kOk n := by
  cases f <;> simp_all [Frame.kB, Frame.kOk]

theorem KOk.kok {w : World} (h : KOk w) : ∀ f ∈ w.stack, f.kOk w.H.length := by
  intro f hf
  exact Frame.kOk_of_kB (List.all_eq_true.1 h f hf)

@[simp] theorem fromT1_H (w : World) (h : T1.Heap) : (fromT1 w h).H = w.H := rfl
@[simp] theorem updAll_H (w : World) (l : List Id) (f : Obj → Obj) : (w.updAll l f).H = w.H := (updAll_same w l f).2.2.2.1
@[simp] theorem setH_H_length (w : World) (k : Nat) (v : Option Id) : (w.setH k v).H.length = w.H.length := by simp [World.setH]

theorem foldl_free_H (c : Cfg) (N : List Id) : ∀ w : World,
    (N.foldl (fun w x => (if c.weak then w.dropMetadata x else w).freeBox x) w).H = w.H := by
  induction N with
  | nil => intro w; rfl
  | cons x r ih => intro w; simp only [List.foldl_cons]; rw [ih]; split <;> simp

theorem foldl_free_stack (c : Cfg) (N : List Id) (w : World) :
    (N.foldl (fun w x => (if c.weak then w.dropMetadata x else w).freeBox x) w).stack = w.stack :=
  (foldl_free_ctl c N w).stack

theorem putH_kOk (w : World) (k : Nat) (x : Id) (h : KOk w) : KOk (w.putH k x) := by
  unfold World.putH
  split <;> simp_all [KOk, Frame.kB]

macro "k_close" : tactic => `(tactic| first
  | (simp_all [KOk, Frame.kB, World.putH, World.startCollect, World.cloneOk]; done)
  | (simp_all [KOk, Frame.kB, World.putH, World.startCollect, World.cloneOk]; omega))

set_option maxHeartbeats 4000000 in
theorem execOp_kOk (c : Cfg) (w : World) (self wc : Option Id) (op : Op) (h : KOk w) : KOk (execOp c w self wc op) := by
  cases op with
  | fault kind n j => cases kind <;> simpa [execOp, KOk] using h
  | _ =>
    simp only [execOp]
    repeat' split
    all_goals k_close

set_option maxHeartbeats 8000000 in
theorem stepFrame_kOk (c : Cfg) (w : World) (f : Frame) (hf : f.kB w.H.length = true) (h : KOk w) : KOk (stepFrame c w f) := by
  cases f with
  | script ops self wc top =>
    cases ops with
    | nil => simpa [stepFrame] using h
    | cons op ops =>
      simp only [stepFrame]
      have h1 : KOk (w.push (.script ops self wc top)) := by simp_all [KOk, Frame.kB]
      have h2 := execOp_kOk c _ self wc op h1
      split
      · exact h2
      · simpa [KOk] using h2
  | collectPass =>
    simp only [stepFrame, startDealloc]
    generalize tracePhasesF _ _ _ _ _ = r
    obtain ⟨res, fault⟩ := r
    cases res <;> simp only [] <;> repeat' split
    all_goals (simp_all [KOk, Frame.kB]; done)
  | deallocDrop N r oD =>
    cases r with
    | cons x r => simp only [stepFrame]; repeat' split
                  all_goals k_close
    | nil =>
      simp only [stepFrame]
      split
      · k_close
      · simp only [KOk, foldl_free_H, foldl_free_stack] at *; exact h
  | _ =>
    simp only [stepFrame, destroyLast, startDealloc]
    repeat' split
    all_goals first
      | k_close
      | (apply putH_kOk; k_close)

set_option maxHeartbeats 4000000 in
theorem unwindFrame_kOk (c : Cfg) (w : World) (f : Frame) (h : KOk w) : KOk (unwindFrame c w f) := by
  cases f <;> simp only [unwindFrame] <;> repeat' split
  all_goals k_close

theorem step_kOk (c : Cfg) (w : World) (h : KOk w) : KOk (step c w) := by
  unfold step
  split
  · exact h
  · exact h
  · split
    · simpa [KOk] using h
    · rename_i f rest hs
      apply unwindFrame_kOk
      simp_all [KOk]
  · split
    · exact h
    · rename_i f rest hs
      apply stepFrame_kOk
      · simp_all [KOk]
      · simp_all [KOk]

theorem init_kOk (c : Cfg) (nH nW nK : Nat) : KOk (World.init c nH nW nK) := by simp [KOk, World.init]

end RustCc
