import RustCcModel.T1.FinalComplete
import RustCcModel.Proofs.TracingF
import RustCcModel.Model.Machine
import RustCcModel.Proofs.Exact
import RustCcModel.Proofs.InvCollect
/-! # C02 — unreachable cycles are completely reclaimed

Per-pass completeness for every graph (T2): everything in the traced closure of the buffer that is
not reachable through traced fields from a member holding a reference that does not come from that
closure is a reclaim candidate, and the pass terminates with both work queues empty. -/
namespace RustCc.C02
open T1

/-- **T2 on the machine's heap.** -/
theorem pass_complete (w : World) (objs : List Nat) (ext : Nat → Nat)
    (hex : Exact (toT1 w) objs ext)
    (hmark : ∀ x, (((toT1 w) x).mark = .pc ↔ x ∈ w.pc) ∧ (((toT1 w) x).mark = .pc ∨ ((toT1 w) x).mark = .non))
    (htc : ∀ x ∈ w.pc, ((toT1 w) x).tc = 0) (hPn : w.pc.Nodup) (hPs : ∀ u ∈ w.pc, u ∈ objs)
    (hfuel : objs.length ≤ w.next) :
    (countQueue w.next (countPC { h := toT1 w } w.pc)).queue = [] ∧
    (tracePhases w.next (toT1 w) w.pc).queue = [] ∧
    ∃ done : List Nat, done.Nodup ∧ (∀ p ∈ w.pc, p ∈ done) ∧ (∀ u ∈ done, From (toT1 w) w.pc u) ∧
      (∀ u ∈ done, ∀ y ∈ ((toT1 w) u).edges, y ∈ done) ∧
      ∀ x ∈ done, (¬ ∃ r ∈ done, ((toT1 w) r).rc ≠ inCount (toT1 w) done r ∧ EReach (toT1 w) r x) →
        x ∈ (tracePhases w.next (toT1 w) w.pc).nonroot :=
  tracePhases_complete (toT1 w) objs ext w.pc w.next hex hmark htc hPn hPs hfuel

/-- Garbage owned only through traced fields is always a candidate: a buffered object all of whose
references come from the traced closure of the buffer, and which no such "pinned" member reaches. -/
theorem buffered_garbage_is_candidate (w : World) (objs : List Nat) (ext : Nat → Nat)
    (hex : Exact (toT1 w) objs ext)
    (hmark : ∀ x, (((toT1 w) x).mark = .pc ↔ x ∈ w.pc) ∧ (((toT1 w) x).mark = .pc ∨ ((toT1 w) x).mark = .non))
    (htc : ∀ x ∈ w.pc, ((toT1 w) x).tc = 0) (hPn : w.pc.Nodup) (hPs : ∀ u ∈ w.pc, u ∈ objs)
    (hfuel : objs.length ≤ w.next) (p : Nat) (hp : p ∈ w.pc)
    (hgarb : ∀ done : List Nat, (∀ q ∈ w.pc, q ∈ done) → (∀ u ∈ done, From (toT1 w) w.pc u) →
      ¬ ∃ r ∈ done, ((toT1 w) r).rc ≠ inCount (toT1 w) done r ∧ EReach (toT1 w) r p) :
    p ∈ (tracePhases w.next (toT1 w) w.pc).nonroot := by
  obtain ⟨_, _, done, _, hPd, hfrom, _, hall⟩ := pass_complete w objs ext hex hmark htc hPn hPs hfuel
  exact hall p (hPd p hp) (hgarb done hPd hfrom)

/-! ## Every collection pass of every panic-free history

The hypotheses of T2 are discharged from the machine invariants (`Counts`, `Inv`, `Flags` hold in every reachable world),
and — because in a history without unwinding the strong count is *exact* (`Proofs/Exact.lean`) — "a member with more
references than traced references from the closure" means what it should: a member to which a pointer exists that is not a
traced field of a live member of the closure (a table entry, a stashed clone, a temporary of running code, an untraced
field, a field of an object outside the closure). -/

/-- **Per-pass completeness in every reachable world of a panic-free history.** When a collection pass is about to run,
let `done` be the closure of the buffer under traced fields. Every member of `done` that is not reachable (through
traced fields) from a member to which some pointer from outside the closure exists is selected by the pass: garbage owned
only through traced fields — cycles of any shape, acyclic tails, cycles sharing nodes — is always selected, whatever
history preceded. -/
theorem reachable_pass_complete (c : Cfg) (nH nW nK : Nat) (w : World) (h : ReachableR c nH nW nK w) (hns : w.mode ≠ .stuck)
    (rest : List Frame) (hs : w.stack = .collectPass :: rest) :
    ∃ done : List Nat, done.Nodup ∧ (∀ p ∈ w.pc, p ∈ done) ∧
      (∀ u ∈ done, From (toT1 { w with stack := rest }) w.pc u) ∧
      (∀ u ∈ done, ∀ y ∈ ((toT1 { w with stack := rest }) u).edges, y ∈ done) ∧
      ∀ x ∈ done,
        (¬ ∃ r ∈ done, refs w r ≠ inCount (toT1 { w with stack := rest }) done r ∧ EReach (toT1 { w with stack := rest }) r x) →
        x ∈ (tracePhases w.next (toT1 { w with stack := rest }) w.pc).nonroot := by
  have ha := reachable_all c nH nW nK w h.reachable
  obtain ⟨hc0, hoi0⟩ := pass_setup w rest ha.counts ha.flags ha.inv hs
  have hex := exact_of_counts { w with stack := rest } hc0
  have htc : ∀ x ∈ w.pc, ((toT1 { w with stack := rest }) x).tc = 0 := fun y hy => hoi0.tc0 y hy
  have hPs : ∀ u ∈ w.pc, u ∈ List.range w.next := fun u hu => List.mem_range.2 (hc0.pcb u hu)
  obtain ⟨_, _, done, hnd, hP, hfrom, hclosed, hall⟩ :=
    tracePhases_complete (toT1 { w with stack := rest }) (List.range w.next) _ w.pc w.next hex (hmark_of_oi hoi0) htc
      hoi0.pcNodup hPs (by simp)
  refine ⟨done, hnd, hP, hfrom, hclosed, ?_⟩
  intro x hx hno
  apply hall x hx
  rintro ⟨r, hr, hne, hreach⟩
  apply hno
  refine ⟨r, hr, ?_, hreach⟩
  have hexact := reachableR_count_exact c nH nW nK w h hns r
  have : ((toT1 { w with stack := rest }) r).rc = refs w r := by
    show (w.heap r).rc = refs w r
    exact hexact
  rw [← this]; exact hne

end RustCc.C02
