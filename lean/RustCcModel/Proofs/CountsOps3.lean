import RustCcModel.Proofs.CountsTac
/-! `Counts` through the weak-pointer, stash and upgrade operations. -/
namespace RustCc
open World
variable {ex : Bool}

theorem weakStrong_lt {w : World} {E : List Id} (h : CountsH ex w E) {x : Id} (hs : w.weakStrong (.to x) ≠ 0) : x < w.next := by
  cases Nat.lt_or_ge x w.next with
  | inl hl => exact hl
  | inr hge =>
    have := h.mfresh x hge
    simp [World.weakStrong, this] at hs

theorem execOp_counts_unwrap (c : Cfg) (w : World) (self wc : Option Id) (k : Nat) (h : CountsG ex w) :
    CountsG ex (execOp c w self wc (.unwrap k)) := by
  have hH := h.toH
  simp only [execOp]
  split
  · rename_i x hx
    have hxlt := getH_lt h hx
    split
    · exact h.ret _
    · rename_i hg
      have hrc1 : (w.heap x).rc = 1 := by
        by_cases e : (w.heap x).rc = 1
        · exact e
        · exact absurd (Or.inl e) hg
      have h1 := ((hH.takeTable hx).removeFromList x).upd_same x (fun o => { o with valLive := false }) rfl rfl
      -- the pointer being unwrapped was the only one: nothing else refers to the box
      have hrcW : (((((w.setH k none).removeFromList x).upd x fun o => { o with valLive := false })).heap x).rc = 1 := by
        rw [upd_heap_same]
        show (((w.setH k none).removeFromList x).heap x).rc = 1
        rw [removeFromList_rc]; exact hrc1
      split
      · have h3 := ((h1.dropMetadata x).consumeFree (by rw [dropMetadata_rc]; exact hrcW)).ret (Ret.unwrapped x)
        refine (CountsH.pushFrame (.dropMoved x) h3 ?_).toCounts0
        intro i hi
        simp only [Frame.ids, List.mem_singleton] at hi
        subst hi; simpa using hxlt
      · have h3 := (h1.consumeFree hrcW).ret (Ret.unwrapped x)
        refine (CountsH.pushFrame (.dropMoved x) h3 ?_).toCounts0
        intro i hi
        simp only [Frame.ids, List.mem_singleton] at hi
        subst hi; simpa using hxlt
  · exact h.congr rfl rfl rfl rfl rfl rfl rfl

theorem execOp_counts_down (c : Cfg) (w : World) (self wc : Option Id) (r : CRef) (k : Nat) (h : CountsG ex w)
    (hself : ∀ s, self = some s → s < w.next) : CountsG ex (execOp c w self wc (.down r k)) := by
  have hH := h.toH
  simp only [execOp]
  split
  · exact h.congr rfl rfl rfl rfl rfl rfl rfl
  · split
    · rename_i x hx
      have hxlt := resolveC_lt h hself hx
      split
      · exact h.congr rfl rfl rfl rfl rfl rfl rfl
      · split
        · exact (hH.initMeta x hxlt).raise.toCounts0
        · exact (((((hH.initMeta x hxlt).updMeta x _ (Or.inl (by simpa using hxlt))).removeFromList x).congr
            (w' := World.setW _ k _) rfl rfl rfl rfl rfl rfl rfl).ret _).toCounts0
    · exact h.congr rfl rfl rfl rfl rfl rfl rfl

theorem execOp_counts_up (c : Cfg) (w : World) (self wc : Option Id) (ws : WSel) (k : Nat) (h : CountsG ex w) :
    CountsG ex (execOp c w self wc (.up ws k)) := by
  have hH := h.toH
  simp only [execOp]
  split
  · exact h.congr rfl rfl rfl rfl rfl rfl rfl
  · split
    · rename_i r hr
      split
      · exact h.congr rfl rfl rfl rfl rfl rfl rfl
      · rename_i hk
        obtain ⟨hnone, hklt⟩ := not_occupied hk
        split
        · exact h.ret _
        · rename_i hstrong
          split
          · rename_i x
            have hxlt : x < w.next := weakStrong_lt hH hstrong
            split
            · exact (((hH.clone x hxlt).putTable (by simpa [getH] using hnone) (by simpa using hklt)).ret _).toCounts0
            · exact h.raise
          · exact h.ret _
    · exact h.congr rfl rfl rfl rfl rfl rfl rfl

theorem execOp_counts_wclone (c : Cfg) (w : World) (self wc : Option Id) (ws : WSel) (k : Nat) (h : CountsG ex w) :
    CountsG ex (execOp c w self wc (.wclone ws k)) := by
  have hH := h.toH
  simp only [execOp]
  repeat' split
  all_goals first
    | exact h.congr rfl rfl rfl rfl rfl rfl rfl
    | exact h.raise
    | noptr hH

theorem execOp_counts_wdrop (c : Cfg) (w : World) (self wc : Option Id) (k : Nat) (h : CountsG ex w) :
    CountsG ex (execOp c w self wc (.wdrop k)) := by
  have hH := h.toH
  simp only [execOp]
  repeat' split
  all_goals first
    | exact h.congr rfl rfl rfl rfl rfl rfl rfl
    | exact h.raise
    | noptr hH

theorem execOp_counts_wnew (c : Cfg) (w : World) (self wc : Option Id) (k : Nat) (h : CountsG ex w) :
    CountsG ex (execOp c w self wc (.wnew k)) := by
  have hH := h.toH
  simp only [execOp]
  repeat' split
  all_goals first
    | exact h.congr rfl rfl rfl rfl rfl rfl rfl
    | exact h.raise
    | noptr hH

theorem execOp_counts_setw (c : Cfg) (w : World) (self wc : Option Id) (n : NRef) (i : Nat) (ws : WSel) (h : CountsG ex w) :
    CountsG ex (execOp c w self wc (.setw n i ws)) := by
  have hH := h.toH
  simp only [execOp]
  repeat' split
  all_goals first
    | exact h.congr rfl rfl rfl rfl rfl rfl rfl
    | exact h.raise
    | noptr hH

theorem execOp_counts_clrw (c : Cfg) (w : World) (self wc : Option Id) (n : NRef) (i : Nat) (h : CountsG ex w) :
    CountsG ex (execOp c w self wc (.clrw n i)) := by
  have hH := h.toH
  simp only [execOp]
  repeat' split
  all_goals first
    | exact h.congr rfl rfl rfl rfl rfl rfl rfl
    | exact h.raise
    | noptr hH

theorem execOp_counts_cdrop (c : Cfg) (w : World) (self wc : Option Id) (k : Nat) (h : CountsG ex w) :
    CountsG ex (execOp c w self wc (.cdrop k)) := by
  have hH := h.toH
  simp only [execOp]
  repeat' split
  all_goals first
    | exact h.congr rfl rfl rfl rfl rfl rfl rfl
    | exact h.raise
    | noptr hH

theorem execOp_counts_wdropN (c : Cfg) (w : World) (self wc : Option Id) (k : CRef) (n : Nat) (h : CountsG ex w) :
    CountsG ex (execOp c w self wc (.wdropN k n)) := by
  have hH := h.toH
  simp only [execOp]
  repeat' split
  all_goals first
    | exact h.congr rfl rfl rfl rfl rfl rfl rfl
    | exact h.raise
    | noptr hH

theorem execOp_counts_cloneN (c : Cfg) (w : World) (self wc : Option Id) (r : CRef) (n : Nat) (h : CountsG ex w)
    (hself : ∀ s, self = some s → s < w.next) : CountsG ex (execOp c w self wc (.cloneN r n)) := by
  have hH := h.toH
  simp only [execOp]
  split
  · rename_i x hx
    have hxlt := resolveC_lt h hself hx
    split
    · exact h.ret _
    · split
      · exact ((((hH.incrRc x n hxlt).removeFromList x).toStash).ret _).toCounts0
      · split
        · rename_i hroom
          have h0 : CountsH ex w (List.replicate (c.rcMax - (w.heap x).rc) x ++ []) := by rw [hroom]; exact hH
          exact h0.toStash.raise.toCounts0
        · exact ((((hH.incrRc x _ hxlt).removeFromList x).toStash)).raise.toCounts0
  · exact h.congr rfl rfl rfl rfl rfl rfl rfl

theorem execOp_counts_dropN (c : Cfg) (w : World) (self wc : Option Id) (r : CRef) (n : Nat) (h : CountsG ex w)
    (hself : ∀ s, self = some s → s < w.next) : CountsG ex (execOp c w self wc (.dropN r n)) := by
  have hH := h.toH
  simp only [execOp]
  split
  · rename_i x hx
    have hxlt := resolveC_lt h hself hx
    have h1 := (hH.fromStash x (min n (w.stash x)) (Nat.min_le_right _ _)).ret .ok
    exact (CountsH.pushFrame (E := []) (.dropMany x (min n (w.stash x))) h1 (by simp [Frame.ids])).toCounts0
  · exact h.congr rfl rfl rfl rfl rfl rfl rfl


theorem execOp_counts_downN (c : Cfg) (w : World) (self wc : Option Id) (r : CRef) (n : Nat) (h : CountsG ex w)
    (hself : ∀ s, self = some s → s < w.next) : CountsG ex (execOp c w self wc (.downN r n)) := by
  have hH := h.toH
  simp only [execOp]
  split
  · exact h.congr rfl rfl rfl rfl rfl rfl rfl
  · split
    · rename_i x hx
      have hxlt := resolveC_lt h hself hx
      have hI := hH.initMeta x hxlt
      split
      · exact h.ret _
      · repeat' split
        all_goals noptr hI
    · exact h.congr rfl rfl rfl rfl rfl rfl rfl
end RustCc
