import RustCcModel.Proofs.InvFrames0
/-! The invariant `Inv` through the collector's list frames (`finalizePass`, `deallocDrop`) and through unwinding. -/
namespace RustCc
open World
open T1 (Mark)

/-! ### Pointwise description of `updAll` and of the freeing fold -/

/-- `updAll` applies an idempotent `F` to every member of the list. -/
theorem updAll_heap_mem (w : World) (l : List Id) (F : Obj → Obj) (hF : ∀ o, F (F o) = F o) (y : Id) (h : y ∈ l) :
    (w.updAll l F).heap y = F (w.heap y) := by
  unfold updAll
  induction l generalizing w with
  | nil => cases h
  | cons x r ih =>
    simp only [List.foldl_cons]
    by_cases hr : y ∈ r
    · rw [ih _ hr]
      by_cases hy : y = x
      · subst hy; rw [upd_heap_same, hF]
      · rw [upd_heap_other _ _ _ _ hy]
    · have hy : y = x := by
        rcases List.mem_cons.1 h with e | e
        · exact e
        · exact absurd e hr
      subst hy
      have := updAll_heap_not_mem (w.upd y F) r F y hr
      unfold updAll at this
      rw [this, upd_heap_same]

theorem updAll_cores_mem (w : World) (l : List Id) (F : Obj → Obj) (hF : ∀ o, F (F o) = F o) (y : Id) (h : y ∈ l) :
    (w.updAll l F).cores y = (F (w.heap y)).core := by
  show ((w.updAll l F).heap y).core = _
  rw [updAll_heap_mem w l F hF y h]

theorem updAll_cores_not_mem (w : World) (l : List Id) (F : Obj → Obj) (y : Id) (h : y ∉ l) :
    (w.updAll l F).cores y = w.cores y := by
  show ((w.updAll l F).heap y).core = _
  rw [updAll_heap_not_mem w l F y h]; rfl

/-- An update of a whole list that keeps what the invariant reads. -/
theorem cores_updAll_neutral (w : World) (l : List Id) (F : Obj → Obj) (hF : ∀ o, (F o).core = o.core) :
    (w.updAll l F).cores = w.cores := by
  unfold updAll
  induction l generalizing w with
  | nil => rfl
  | cons x r ih =>
    simp only [List.foldl_cons]
    rw [ih, cores_upd_neutral w x F (hF _)]

/-- `deallocate_list`, second loop: every member of the list is freed. -/
def freeAll (c : Cfg) (N : List Id) (w : World) : World :=
  N.foldl (fun w x => (if c.weak then w.dropMetadata x else w).freeBox x) w

theorem dropMetadata_heap_eq (w : World) (x : Id) : (w.dropMetadata x).heap = w.heap := by
  unfold dropMetadata; split <;> (try rfl) <;> split <;> rfl

theorem freeStep_heap_same (c : Cfg) (w : World) (x : Id) :
    ((if c.weak then w.dropMetadata x else w).freeBox x).heap x =
      { w.heap x with boxLive := false, rc := 0, tc := 0, mark := .non } := by
  split <;> simp [freeBox, upd, emit, dropMetadata_heap_eq]

theorem freeStep_heap_other (c : Cfg) (w : World) (x y : Id) (hy : y ≠ x) :
    ((if c.weak then w.dropMetadata x else w).freeBox x).heap y = w.heap y := by
  split <;> simp [freeBox, upd, emit, Heap.set, hy, dropMetadata_heap_eq]

theorem freeStep_pc (c : Cfg) (w : World) (x : Id) :
    ((if c.weak then w.dropMetadata x else w).freeBox x).pc = w.pc := by
  split <;> simp

theorem freeStep_stack (c : Cfg) (w : World) (x : Id) :
    ((if c.weak then w.dropMetadata x else w).freeBox x).stack = w.stack := by
  split <;> simp

theorem freeAll_pc (c : Cfg) (N : List Id) (w : World) : (freeAll c N w).pc = w.pc := by
  unfold freeAll
  induction N generalizing w with
  | nil => rfl
  | cons x r ih => simp only [List.foldl_cons]; rw [ih, freeStep_pc]

theorem freeAll_stack (c : Cfg) (N : List Id) (w : World) : (freeAll c N w).stack = w.stack := by
  unfold freeAll
  induction N generalizing w with
  | nil => rfl
  | cons x r ih => simp only [List.foldl_cons]; rw [ih, freeStep_stack]

theorem freeAll_heap_not_mem (c : Cfg) (N : List Id) (w : World) (y : Id) (h : y ∉ N) :
    (freeAll c N w).heap y = w.heap y := by
  unfold freeAll
  induction N generalizing w with
  | nil => rfl
  | cons x r ih =>
    simp only [List.foldl_cons]
    have hy : y ≠ x := fun e => h (e ▸ List.mem_cons_self ..)
    rw [ih _ (fun hm => h (List.mem_cons_of_mem _ hm)), freeStep_heap_other c w x y hy]

theorem freeAll_heap_mem (c : Cfg) (N : List Id) (w : World) (y : Id) (h : y ∈ N) :
    ((freeAll c N w).heap y).mark = .non ∧ ((freeAll c N w).heap y).boxLive = false ∧ ((freeAll c N w).heap y).rc = 0 := by
  induction N generalizing w with
  | nil => cases h
  | cons x r ih =>
    have hunf : freeAll c (x :: r) w = freeAll c r ((if c.weak then w.dropMetadata x else w).freeBox x) := rfl
    rw [hunf]
    by_cases hr : y ∈ r
    · exact ih _ hr
    · have hy : y = x := by
        rcases List.mem_cons.1 h with e | e
        · exact e
        · exact absurd e hr
      subst hy
      rw [freeAll_heap_not_mem c r _ y hr, freeStep_heap_same]
      exact ⟨rfl, rfl, rfl⟩

/-! ### Re-pushing a frame with the same lists -/

/-- The popped frame is replaced by a frame owning the same lists (below pushed plain frames). -/
theorem Inv.repush {w' : World} {f f' : Frame} {rest : List Frame} (fs : List Frame) (hfs : ∀ g ∈ fs, g.plain = true)
    (hs : w'.stack = fs ++ f' :: rest)
    (hl : f'.listed = f.listed) (hz : f'.zeroed = f.zeroed) (hcy : f'.cyc = f.cyc) (hpn : f'.pinned = f.pinned)
    (hps : f'.isPass = f.isPass)
    (hoi : WOI w' (f.listed ++ listed rest) (f.zeroed ++ zeroed rest) (f.cyc ++ cycs rest))
    (hwf : stackWF (f :: rest) = true)
    (hpin : ∀ x ∈ f.pinned ++ pinned rest, x ∉ f.listed ++ listed rest) : Inv w' := by
  obtain ⟨h1, h2, h3, h4, h5⟩ := lists_append_plain fs (f' :: rest) hfs
  refine ⟨?_, ?_, ?_⟩
  · rw [hs, h1, h2, h3, listed_cons, zeroed_cons, cycs_cons, hl, hz, hcy]; exact hoi
  · rw [hs, h4]
    simp only [stackWF] at hwf ⊢
    rw [hps]; exact hwf
  · rw [hs, h1, h5, listed_cons, pinned_cons, hl, hpn]; exact hpin

/-- Popping any frame that holds no collector list: its ownership claims are dropped. -/
theorem Inv.pop_weak {w : World} {f : Frame} {rest : List Frame} (hi : Inv w) (hs : w.stack = f :: rest)
    (hl : f.listed = []) : Inv { w with stack := rest } := by
  obtain ⟨hoi, hwf, hpin⟩ := hi.popped hs
  rw [hl] at hoi hpin
  simp only [List.nil_append] at hoi hpin
  refine ⟨?_, stackWF_tail hwf, ?_⟩
  · exact OI.weaken hoi (List.sublist_append_right _ _) (List.sublist_append_right _ _) (cycs_sub_zeroed rest)
  · intro x hx; exact hpin x (List.mem_append_right _ hx)

/-- Building `Inv` for a world whose stack is known. -/
theorem Inv.ofStack {w' : World} {rest : List Frame} (hs : w'.stack = rest)
    (hoi : WOI w' (listed rest) (zeroed rest) (cycs rest)) (hwf : stackWF rest = true)
    (hpin : ∀ x ∈ pinned rest, x ∉ listed rest) : Inv w' := by
  subst hs; exact ⟨hoi, hwf, hpin⟩

/-! ### `startDealloc` -/

theorem cores_upd_finalized (w : World) (x : Id) : (w.upd x fun o => { o with finalized := true }).cores = w.cores :=
  cores_upd_neutral w x _ rfl

theorem cores_upd_dropped (w : World) (x : Id) : (w.upd x fun o => { o with dropped := true }).cores = w.cores :=
  cores_upd_neutral w x _ rfl

/-! ### The finalization pass -/

theorem stepFrame_inv_finalizePass (c : Cfg) (w : World) (N r : List Id) (hasFin oldFin : Bool) (rest : List Frame)
    (hi : Inv w) (hs : w.stack = .finalizePass N r hasFin oldFin :: rest) :
    Inv (stepFrame c { w with stack := rest } (.finalizePass N r hasFin oldFin)) := by
  obtain ⟨hoi, hwf, hpin⟩ := hi.popped hs
  cases r with
  | cons x r =>
    simp only [stepFrame]
    split
    · refine Inv.repush (f := .finalizePass N (x :: r) hasFin oldFin) (f' := .finalizePass N r true oldFin) (rest := rest)
        [.callFin x] (by plain_tac) (by simp) rfl rfl rfl rfl rfl ?_ hwf hpin
      exact WOI.same hoi (by rw [cores_push, cores_upd_finalized]; rfl) (by simp)
    · exact Inv.repush (f := .finalizePass N (x :: r) hasFin oldFin) (f' := .finalizePass N r hasFin oldFin) (rest := rest)
        [] (by plain_tac) (by simp) rfl rfl rfl rfl rfl (WOI.same hoi rfl rfl) hwf hpin
  | nil =>
    simp only [stepFrame]
    split
    · refine Inv.repush (f := .finalizePass N [] hasFin oldFin) (f' := .deallocDrop N N w.dropping) (rest := rest)
        [] (by plain_tac) (by rw [startDealloc_stack]; rfl) rfl rfl rfl rfl rfl ?_ hwf hpin
      exact WOI.same hoi (startDealloc_cores _ _ _) (startDealloc_pc _ _ _)
    · simp only [Frame.listed, Frame.zeroed, Frame.cyc, Frame.pinned, List.nil_append] at hoi hpin
      refine Inv.ofStack (rest := rest) (by simp) ?_ (stackWF_tail hwf) ?_
      · refine OI.rebuffer hoi ?_ ?_
        · intro y hy
          show ((World.updAll _ N _).heap y).core = _
          rw [updAll_heap_mem _ N (fun o => { o with tc := 0, mark := .pc }) (fun o => rfl) y hy]; rfl
        · intro y hy
          show ((World.updAll _ N _).heap y).core = _
          rw [updAll_heap_not_mem _ N _ y hy]; rfl
      · intro y hy hl; exact hpin y hy (List.mem_append_right _ hl)

/-! ### The first loop of `deallocate_list` -/

theorem stepFrame_inv_deallocDrop (c : Cfg) (w : World) (N r : List Id) (oldDrop : Bool) (rest : List Frame)
    (hi : Inv w) (hs : w.stack = .deallocDrop N r oldDrop :: rest) :
    Inv (stepFrame c { w with stack := rest } (.deallocDrop N r oldDrop)) := by
  obtain ⟨hoi, hwf, hpin⟩ := hi.popped hs
  cases r with
  | cons x r =>
    simp only [stepFrame]
    split
    · refine Inv.repush (f := .deallocDrop N (x :: r) oldDrop) (f' := .deallocDrop N r oldDrop) (rest := rest)
        [.dropValue x] (by plain_tac) (by simp) rfl rfl rfl rfl rfl ?_ hwf hpin
      exact WOI.same hoi (by rw [cores_push, cores_upd_dropped]; rfl) (by simp)
    · exact Inv.repush (f := .deallocDrop N (x :: r) oldDrop) (f' := .deallocDrop N r oldDrop) (rest := rest)
        [.dropValue x] (by plain_tac) (by simp) rfl rfl rfl rfl rfl (WOI.same hoi rfl rfl) hwf hpin
  | nil =>
    simp only [stepFrame]
    split
    · exact Inv.repush (f := .deallocDrop N [] oldDrop) (f' := .deallocDrop N [] oldDrop) (rest := rest)
        [] (by plain_tac) (by simp) rfl rfl rfl rfl rfl (WOI.same hoi rfl rfl) hwf hpin
    · simp only [Frame.listed, Frame.zeroed, Frame.cyc, Frame.pinned, List.nil_append] at hoi hpin
      refine Inv.ofStack (rest := rest) (freeAll_stack c N _) ?_ (stackWF_tail hwf) ?_
      · have hpc : (freeAll c N { w with stack := rest }).pc = w.pc := freeAll_pc c N _
        show OI (freeAll c N { w with stack := rest }).cores (freeAll c N { w with stack := rest }).pc _ _ _
        rw [hpc]
        refine OI.unlist hoi ?_ ?_
        · intro y hy
          obtain ⟨h1, h2, h3⟩ := freeAll_heap_mem c N { w with stack := rest } y hy
          exact ⟨h1, Or.inr ⟨h2, h3⟩⟩
        · intro y hy
          show ((freeAll c N { w with stack := rest }).heap y).core = _
          rw [freeAll_heap_not_mem c N _ y hy]; rfl
      · intro y hy hl; exact hpin y hy (List.mem_append_right _ hl)

/-! ### Unwinding -/

theorem unwindFrame_inv (c : Cfg) (w : World) (f : Frame) (rest : List Frame) (hc : Counts w) (hf : FlagsOk w) (hi : Inv w)
    (hs : w.stack = f :: rest) : Inv (unwindFrame c { w with stack := rest } f) := by
  cases f with
  | finalizePass N r hasFin oldFin =>
    obtain ⟨hoi, hwf, hpin⟩ := hi.popped hs
    simp only [Frame.listed, Frame.zeroed, Frame.cyc, Frame.pinned, List.nil_append] at hoi hpin
    simp only [unwindFrame]
    refine Inv.ofStack (rest := rest) (by simp) ?_ (stackWF_tail hwf) ?_
    · show OI (World.updAll _ N _).cores (World.updAll _ N _).pc _ _ _
      rw [updAll_pc]
      refine OI.unlist hoi ?_ ?_
      · intro y hy
        have e := updAll_cores_mem { w with stack := rest } N (fun o => { o with mark := .non }) (fun o => rfl) y hy
        exact ⟨(congrArg Core.mark e).trans rfl, Or.inl ⟨(congrArg Core.boxLive e).trans rfl, (congrArg Core.rc e).trans rfl,
          (congrArg Core.valLive e).trans rfl⟩⟩
      · intro y hy
        exact updAll_cores_not_mem { w with stack := rest } N _ y hy
    · intro y hy hl; exact hpin y hy (List.mem_append_right _ hl)
  | deallocDrop N r oldDrop =>
    obtain ⟨hoi, hwf, hpin⟩ := hi.popped hs
    simp only [Frame.listed, Frame.zeroed, Frame.cyc, Frame.pinned, List.nil_append] at hoi hpin
    simp only [unwindFrame]
    refine Inv.ofStack (rest := rest) (by simp) ?_ (stackWF_tail hwf) ?_
    · show OI (World.updAll _ N _).cores (World.updAll _ N _).pc _ _ _
      rw [updAll_pc]
      refine OI.unlist hoi ?_ ?_
      · intro y hy
        have e := updAll_cores_mem { w with stack := rest } N (fun o => { o with mark := .non, dropped := o.dropped || c.weak })
          (fun o => by cases c.weak <;> simp) y hy
        exact ⟨(congrArg Core.mark e).trans rfl, Or.inl ⟨(congrArg Core.boxLive e).trans rfl, (congrArg Core.rc e).trans rfl,
          (congrArg Core.valLive e).trans rfl⟩⟩
      · intro y hy
        exact updAll_cores_not_mem { w with stack := rest } N _ y hy
    · intro y hy hl; exact hpin y hy (List.mem_append_right _ hl)
  | newCyclicEnd k id sp selfw =>
    obtain ⟨hoi, hwf, hpin⟩ := hi.popped hs
    have h0 := hi.pop_weak hs rfl
    simp only [Frame.listed, Frame.zeroed, Frame.cyc, Frame.pinned, List.nil_append] at hoi hpin
    have hz := hoi.zero id (List.mem_append_left _ (List.mem_singleton.2 rfl))
    have hnz : id ∉ zeroed rest := by
      intro hm
      have hnd := hoi.ownNodup
      rw [List.append_assoc, List.singleton_append] at hnd
      exact (List.nodup_cons.1 hnd).1 (List.mem_append_left _ hm)
    simp only [unwindFrame]
    have h1 : WOI (World.dropMetadata { w with stack := rest } id) (listed rest) (zeroed rest) (cycs rest) :=
      WOI.same h0.oi (by simp) (by simp)
    have h2 := WOI.freeBox h1 id (by rw [show ((World.dropMetadata { w with stack := rest } id).heap id).mark = (w.heap id).mark from by rw [dropMetadata_heap_eq]]; exact hz.2.2) hnz
    exact Inv.ofStack (rest := rest) (by simp) (WOI.same h2 (by simp) (by simp)) h0.wf h0.pin
  | dropValue x =>
    have h0 := hi.pop_weak hs rfl
    simp only [unwindFrame]
    exact h0.step_same (cores_upd_neutral _ x id rfl) rfl [] (by plain_tac) rfl
  | dropFields x unw =>
    have h0 := hi.pop_weak hs rfl
    cases unw <;> simp only [unwindFrame]
    · inv_same h0 [.dropFields x true]
    · exact h0
  | dropActions m i unw =>
    have h0 := hi.pop_weak hs rfl
    cases unw <;> simp only [unwindFrame]
    · inv_same h0 [.dropActions m i true]
    · exact h0
  | actionEnd cap unw =>
    have h0 := hi.pop_weak hs rfl
    cases unw <;> simp only [unwindFrame]
    · inv_same h0 [.actionEnd cap true]
    · exact h0
  | cleanEnd m b unw =>
    have h0 := hi.pop_weak hs rfl
    cases unw <;> simp only [unwindFrame]
    · inv_same h0 [.cleanEnd m b true]
    · exact h0
  | regInsert owner script k cap =>
    have h0 := hi.pop_weak hs rfl
    cases cap with
    | none => simp only [unwindFrame]; exact h0
    | some y => simp only [unwindFrame]; inv_same h0 [.actionEnd (some y) true]
  | _ =>
    have h0 := hi.pop_weak hs rfl
    simp only [unwindFrame]
    first
      | exact h0
      | inv_same h0 []

end RustCc
