import RustCcModel.Proofs.InvReach
/-! **Weak counts are never too low; the side record outlives every `Weak`.**

`wrefs w x` counts every `Weak` to `x` the machine knows about: table entries `W`, stashed weak pointers, weak
fields of all allocated objects, `Cleanable`s in table `K` (each holds a `Weak` to its map) and the closure argument
of a running `new_cyclic` (frame `newCyclicEnd`). Invariant `WeakOk`: `wrefs w x ≤ weak count`, and a `Weak` that
exists has a live side record. Definitions; the proofs are in `WeakInv2 …`. -/
namespace RustCc
open World

/-- Targets of the (non-dangling) `Weak`s of a table. -/
def wIds (l : List (Option WRef)) : List Id :=
  l.filterMap fun e => match e with
    | some (.to x) => some x
    | _ => none

/-- Maps the `Cleanable`s of a table point to (weakly). -/
def kIds (l : List (Option (Id × Nat × Nat))) : List Id :=
  l.filterMap fun e => match e with
    | some (m, _, _) => some m
    | none => none

/-- `Weak` fields of all allocated objects pointing to `x`. -/
def wfieldRefs (w : World) (x : Id) : Nat :=
  ((List.range w.next).map fun u => (optIds (w.heap u).wslots).count x).sum

/-- Number of `Weak` pointers to `x` that exist. -/
def wrefs (w : World) (x : Id) : Nat :=
  (wIds w.W).count x + w.wstash x + wfieldRefs w x + (kIds w.K).count x + (cycs w.stack).count x

/-- The `Weak` a script can name as `wc` (argument of the `new_cyclic` closure it belongs to). -/
def Frame.wcId : Frame → Option Id
  | .script _ _ wc _ => wc
  | _ => none

/-- A script that can name the closure's `Weak` runs above the `newCyclicEnd` frame holding that `Weak`. -/
def wcOk : List Frame → Prop
  | [] => True
  | f :: rest => (∀ id, f.wcId = some id → id ∈ cycs rest) ∧ wcOk rest

/-- The invariant for one identity: side record `m`, `hm`/`bl` = the object's `hasMeta`/`boxLive`, `n` = number of
`Weak`s that exist. -/
structure MOK (m : Meta) (hm bl : Bool) (n : Nat) : Prop where
  le : n ≤ m.weak
  wl : 0 < m.weak → m.live = true
  rel : m.live = true → m.accessible = true ∨ 0 < m.weak
  acc : m.accessible = true → m.live = true ∧ hm = true
  box : hm = true → bl = true → m.accessible = true
  nm : hm = false → m.weak = 0

/-- **The weak-pointer invariant.** -/
structure WeakOk (w : World) : Prop where
  /-- the weak count is never below the number of `Weak` pointers -/
  le : ∀ x, wrefs w x ≤ (w.metas x).weak
  /-- a `Weak` that exists has its side record (never dangling) -/
  live : ∀ x, 0 < wrefs w x → (w.metas x).live = true
  /-- a non-zero weak count keeps the record -/
  wlive : ∀ x, 0 < (w.metas x).weak → (w.metas x).live = true
  /-- the record is released as soon as the box and all `Weak`s are gone -/
  rel : ∀ x, (w.metas x).live = true → (w.metas x).accessible = true ∨ 0 < (w.metas x).weak
  /-- an accessible record exists and its box knows it -/
  acc : ∀ x, (w.metas x).accessible = true → (w.metas x).live = true ∧ (w.heap x).hasMeta = true
  /-- a live box that has a record can be reached through it -/
  box : ∀ x, (w.heap x).hasMeta = true → (w.heap x).boxLive = true → (w.metas x).accessible = true
  /-- no record, no weak count -/
  nometa : ∀ x, (w.heap x).hasMeta = false → (w.metas x).weak = 0
  /-- identities not yet handed out have no weak count -/
  fresh : ∀ x, w.next ≤ x → (w.metas x).weak = 0
  /-- scripts naming a closure `Weak` run inside that `new_cyclic` -/
  wcs : wcOk w.stack

end RustCc
