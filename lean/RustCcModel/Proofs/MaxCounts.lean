import RustCcModel.Proofs.InvReach
import RustCcModel.Proofs.CountsSimp
/-! **The counts never exceed their maximum** (C16): in every reachable world every strong count is at most `MAX` and
every weak count at most the weak `MAX` — no operation wraps or spills into the flag bits. -/
namespace RustCc
open World

structure MaxOk (c : Cfg) (w : World) : Prop where
  rc : ∀ x, (w.heap x).rc ≤ c.rcMax
  weak : ∀ x, (w.metas x).weak ≤ c.weakMax

macro "mx_tac" : tactic => `(tactic| (
  refine ⟨fun y => ?_, fun y => ?_⟩ <;>
  (simp [World.upd, World.updMeta, Heap.set, World.putH, World.startCollect, World.cloneOk, World.setH, World.setW, World.setK, World.push,
     World.emit, canClone] <;>
   (repeat' split) <;>
   (first
    | done
    | (have h1 := ‹MaxOk _ _›.rc y; have h2 := ‹MaxOk _ _›.weak y; simp_all; done)
    | (have h1 := ‹MaxOk _ _›.rc y; have h2 := ‹MaxOk _ _›.weak y; simp_all; omega)
    | (have h1 := ‹MaxOk _ _›.rc y; have h2 := ‹MaxOk _ _›.weak y; omega)))))

set_option maxHeartbeats 16000000 in
theorem execOp_maxOk (c : Cfg) (w : World) (self wc : Option Id) (op : Op) (h1 : 1 ≤ c.rcMax) (h2 : 1 ≤ c.weakMax)
    (h : MaxOk c w) : MaxOk c (execOp c w self wc op) := by
  cases op with
  | fault kind n j => cases kind <;> exact ⟨h.rc, h.weak⟩
  | _ =>
    simp only [execOp]
    repeat' split
    all_goals mx_tac

end RustCc
