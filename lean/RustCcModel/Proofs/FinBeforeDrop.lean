import RustCcModel.Proofs.DroppedMono
import RustCcModel.Proofs.Untouched
/-! **All finalizers of a garbage set run before any of its destructors** (`finalization` on, panic-free histories): every
member of a list that `deallocate_list` is destroying carries the finalized flag, and so does every member of a list under
finalization that the pass has already visited. The flag cannot be cleared meanwhile: `finalize_again` panics in every
callback of a collection. -/
namespace RustCc
open World
open T1 (Mark)

def Flags.any (fl : Flags) : Bool := fl.1 || fl.2.1 || fl.2.2

theorem Frame.flags_any {f : Frame} {b fl : Flags} (h : f.flags b = some fl) (hb : b.any = true) : fl.any = true := by
  obtain ⟨b1, b2, b3⟩ := b
  obtain ⟨f1, f2, f3⟩ := fl
  cases f <;> simp only [Frame.flags] at h <;> (try split at h) <;> simp_all [Flags.any]
  all_goals (cases b1 <;> cases b2 <;> cases b3 <;> simp_all)

/-- Above a collector list frame some phase flag is on. -/
theorem expected_any_of_dealloc : ∀ (st : List Frame) (fl : Flags), expected st = some fl →
    (∃ f ∈ st, f.isDealloc = true) → fl.any = true := by
  intro st
  induction st with
  | nil => intro fl _ ⟨f, hf, _⟩; cases hf
  | cons g rest ih =>
    intro fl he ⟨f, hf, hd⟩
    simp only [expected] at he
    cases hr : expected rest with
    | none => rw [hr] at he; cases he
    | some b =>
      rw [hr] at he
      have he' : g.flags b = some fl := he
      rcases List.mem_cons.1 hf with e | e
      · subst e
        obtain ⟨b1, b2, b3⟩ := b
        obtain ⟨f1, f2, f3⟩ := fl
        cases f with
        | finalizePass N r h o =>
          simp only [Frame.flags] at he'
          split at he' <;> simp_all [Flags.any]
        | deallocDrop N r d =>
          simp only [Frame.flags] at he'
          split at he' <;> simp_all [Flags.any]
        | _ => simp [Frame.isDealloc] at hd
      · exact Frame.flags_any he' (ih b hr ⟨f, e, hd⟩)

/-- With a phase flag on, `finalize_again` refuses: no step of the running machine clears a finalized flag. -/
theorem stepFrame_fin_flag (c : Cfg) (w : World) (f : Frame) (x : Id) (hx : (w.heap x).finalized = true) (hlt : x < w.next)
    (hfl : w.collecting = true ∨ w.finalizing = true ∨ w.dropping = true) : ((stepFrame c w f).heap x).finalized = true := by
  rcases stepFrame_fin c w f x hx hlt with h | ⟨k, ops, self, wc, top, h1, h2⟩
  · exact h
  · subst h1
    have key : ((execOp c (w.push (Frame.script ops self wc top)) self wc (.finAgain k)).heap x).finalized = true := by
      simp only [execOp]
      have hg : (w.push (Frame.script ops self wc top)).getH k = some x := h2
      simp only [hg]
      have hfl' : (w.push (Frame.script ops self wc top)).collecting = true ∨ (w.push (Frame.script ops self wc top)).finalizing = true ∨
          (w.push (Frame.script ops self wc top)).dropping = true := hfl
      repeat' split
      all_goals first
        | exact hx
        | (simpa using hx)
        | (rename_i h1 h2; exact absurd hfl' h2)
    simp only [stepFrame]
    split <;> exact key

/-! ### The invariant -/

def Frame.finOk (hp : Id → Bool) : Frame → Prop
  | .finalizePass N r _ _ => ∀ y ∈ N, y ∉ r → hp y = true
  | .deallocDrop N _ _ => ∀ y ∈ N, hp y = true
  | _ => True

/-- Every member of a list under destruction, and every visited member of a list under finalization, is finalized. -/
def FD (w : World) : Prop := ∀ g ∈ w.stack, g.finOk fun y => (w.heap y).finalized

theorem finOk_plain {g : Frame} (h : g.plain2 = true) (hp : Id → Bool) : g.finOk hp := by
  cases g <;> simp_all [Frame.plain2, Frame.isDealloc, Frame.isDropValue, Frame.finOk]

theorem finOk_notDealloc {g : Frame} (h : g.isDealloc = false) (hp : Id → Bool) : g.finOk hp := by
  cases g <;> simp_all [Frame.isDealloc, Frame.finOk]

theorem finOk_mono {g : Frame} {rest : List Frame} {hp hp' : Id → Bool} (hg : g ∈ rest) (h : g.finOk hp)
    (hm : ∀ x ∈ listed rest, hp x = true → hp' x = true) : g.finOk hp' := by
  have hl : ∀ x ∈ g.listed, x ∈ listed rest := by
    intro x hx; unfold listed; rw [List.mem_flatMap]; exact ⟨g, hg, hx⟩
  cases g with
  | finalizePass N r hh o => intro y hy hr; exact hm y (hl y (by simpa [Frame.listed] using hy)) (h y hy hr)
  | deallocDrop N r d => intro y hy; exact hm y (hl y (by simpa [Frame.listed] using hy)) (h y hy)
  | _ => trivial

theorem PushedPlain.mem {rest st : List Frame} (h : PushedPlain rest st) {g : Frame} (hg : g ∈ st) : g ∈ rest ∨ g.plain2 = true := by
  induction h with
  | refl => exact Or.inl hg
  | cons f st hf _ ih =>
    rcases List.mem_cons.1 hg with e | e
    · subst e; exact Or.inr hf
    · exact ih e

theorem startDealloc_fin (c : Cfg) (w : World) (N : List Id) (x : Id) :
    ((startDealloc c w N).heap x).finalized = (w.heap x).finalized := by
  unfold startDealloc
  simp only []
  have h1 : ∀ W : World, ((W.updAll N fun o => { o with doomed := true }).heap x).finalized = (W.heap x).finalized :=
    fun W => updAll_fin_same W N (fun o : Obj => { o with doomed := true }) x (fun _ => rfl)
  have h2 : ∀ W : World, ((W.updAll N fun o => { o with dropped := true }).heap x).finalized = (W.heap x).finalized :=
    fun W => updAll_fin_same W N (fun o : Obj => { o with dropped := true }) x (fun _ => rfl)
  split
  · rw [h2, h1]; rfl
  · rw [h1]; rfl

theorem destroyLast_frames (c : Cfg) (w : World) (x : Id) {g : Frame} (hg : g ∈ (destroyLast c w x).stack) :
    g ∈ w.stack ∨ g.isDealloc = false := by
  obtain ⟨d, hd⟩ := destroyLast_stack c w x
  rw [hd] at hg
  rcases List.mem_cons.1 hg with e | e
  · subst e; exact Or.inr rfl
  · rcases List.mem_cons.1 e with e | e
    · subst e; exact Or.inr rfl
    · exact Or.inl e

set_option maxHeartbeats 4000000 in
theorem stepFrame_fd (c : Cfg) (w : World) (f : Frame) (rest : List Frame) (hc : c.fin = true) (ha : AllInv c w)
    (h : FD w) (hs : w.stack = f :: rest) : FD (stepFrame c { w with stack := rest } f) := by
  have hlt : ∀ x ∈ listed rest, x < w.next := fun x hx =>
    listed_lt ha (by rw [hs, listed_cons]; exact List.mem_append_right _ hx)
  have hflag : (∃ x, x ∈ listed rest) → w.collecting = true ∨ w.finalizing = true ∨ w.dropping = true := by
    intro ⟨x, hx⟩
    unfold listed at hx
    rw [List.mem_flatMap] at hx
    obtain ⟨g, hg, hxg⟩ := hx
    have hgd : g.isDealloc = true := by cases g <;> simp_all [Frame.listed, Frame.isDealloc]
    have hfo := ha.flags
    unfold FlagsOk at hfo
    have := expected_any_of_dealloc w.stack w.flags hfo ⟨g, by rw [hs]; exact List.mem_cons_of_mem _ hg, hgd⟩
    simp only [Flags.any, World.flags, Bool.or_eq_true] at this
    rcases this with (h1 | h2) | h3
    · exact Or.inl h1
    · exact Or.inr (Or.inl h2)
    · exact Or.inr (Or.inr h3)
  have hmono : ∀ x ∈ listed rest, (w.heap x).finalized = true →
      ((stepFrame c { w with stack := rest } f).heap x).finalized = true :=
    fun x hx hd => stepFrame_fin_flag c { w with stack := rest } f x hd (hlt x hx) (hflag ⟨x, hx⟩)
  have hrest : ∀ g ∈ rest, g.finOk fun y => ((stepFrame c { w with stack := rest } f).heap y).finalized :=
    fun g hg => finOk_mono hg (h g (by rw [hs]; exact List.mem_cons_of_mem _ hg)) hmono
  -- generic: every frame of the new stack is old, or not a collector list frame
  have hgen : (∀ g ∈ (stepFrame c { w with stack := rest } f).stack, g ∈ rest ∨ g.isDealloc = false) →
      FD (stepFrame c { w with stack := rest } f) := by
    intro hp g hg
    rcases hp g hg with e | e
    · exact hrest g e
    · exact finOk_notDealloc e _
  have hplain : PushedPlain rest (stepFrame c { w with stack := rest } f).stack → FD (stepFrame c { w with stack := rest } f) := by
    intro hp
    apply hgen
    intro g hg
    rcases hp.mem hg with e | e
    · exact Or.inl e
    · right; cases g <;> simp_all [Frame.plain2]
  cases f with
  | script ops self wc top =>
    cases ops with
    | nil => exact hplain (by simp only [stepFrame]; exact PushedPlain.refl)
    | cons op ops =>
      apply hplain
      simp only [stepFrame]
      obtain ⟨_, h2⟩ := execOp_plain c (({ w with stack := rest } : World).push (.script ops self wc top)) self wc op
      have h2' : PushedPlain rest (execOp c (({ w with stack := rest } : World).push (.script ops self wc top)) self wc op).stack :=
        PushedPlain.trans (PushedPlain.cons _ _ (by cases self <;> rfl) PushedPlain.refl) h2
      split <;> exact h2'
  | collectPass =>
    simp only [stepFrame] at hrest hplain ⊢
    generalize tracePhasesF _ _ _ _ _ = r at hrest hplain ⊢
    obtain ⟨res, fault⟩ := r
    cases res with
    | panicked hh pcRest log => exact hplain (by simp only []; pushed_tac)
    | done s =>
      simp only [hc, if_true] at hrest hplain ⊢
      split
      · rename_i he; simp only [he, if_true] at hplain; exact hplain (by pushed_tac)
      · rename_i he
        simp only [he] at hrest
        intro g hg
        simp only [World.push_stack] at hg
        rcases List.mem_cons.1 hg with e | e
        · subst e; intro y hy hn; exact absurd hy hn
        · exact hrest g e
  | finalizePass N r hasFin oldFin =>
    have hN := h (.finalizePass N r hasFin oldFin) (by rw [hs]; exact List.mem_cons_self ..)
    cases r with
    | nil =>
      simp only [stepFrame] at hrest hplain ⊢
      split
      · rename_i he
        simp only [he] at hrest
        intro g hg
        rw [startDealloc_stack] at hg
        rcases List.mem_cons.1 hg with e | e
        · subst e
          intro y hy
          show ((startDealloc c _ N).heap y).finalized = true
          rw [startDealloc_fin]
          exact hN y hy (by simp)
        · have := hrest g e
          cases g <;> first | trivial | (simp only [Frame.finOk] at this ⊢; intros; rw [startDealloc_fin]; simp only [startDealloc_fin] at this; apply this <;> assumption)
      · rename_i he; simp only [he] at hplain; exact hplain (by pushed_tac)
    | cons x r =>
      simp only [stepFrame] at hrest ⊢
      split
      · rename_i he
        simp only [he] at hrest
        intro g hg
        simp only [World.push_stack, World.upd_stack] at hg
        rcases List.mem_cons.1 hg with e | e
        · subst e; trivial
        · rcases List.mem_cons.1 e with e | e
          · subst e
            intro y hy hn
            by_cases e1 : y = x
            · subst e1; simp [World.push, World.upd]
            · have := hN y hy (by simp only [List.mem_cons, not_or]; exact ⟨e1, hn⟩)
              simpa [World.push, World.upd, Heap.set, e1] using this
          · exact hrest g e
      · rename_i he
        simp only [he] at hrest
        intro g hg
        simp only [World.push_stack] at hg
        rcases List.mem_cons.1 hg with e | e
        · subst e
          intro y hy hn
          by_cases e1 : y = x
          · subst e1; simpa using he
          · exact hN y hy (by simp only [List.mem_cons, not_or]; exact ⟨e1, hn⟩)
        · exact hrest g e
  | deallocDrop N r oD =>
    have hN := h (.deallocDrop N r oD) (by rw [hs]; exact List.mem_cons_self ..)
    have hNlt : ∀ x ∈ N, x < w.next := fun x hx =>
      listed_lt ha (by rw [hs, listed_cons]; exact List.mem_append_left _ (by simpa [Frame.listed] using hx))
    have hfl : w.collecting = true ∨ w.finalizing = true ∨ w.dropping = true := by
      have hfo := ha.flags
      unfold FlagsOk at hfo
      have := expected_any_of_dealloc w.stack w.flags hfo ⟨_, by rw [hs]; exact List.mem_cons_self .., rfl⟩
      simp only [Flags.any, World.flags, Bool.or_eq_true] at this
      rcases this with (h1 | h2) | h3
      · exact Or.inl h1
      · exact Or.inr (Or.inl h2)
      · exact Or.inr (Or.inr h3)
    have hNn : ∀ y ∈ N, ((stepFrame c { w with stack := rest } (.deallocDrop N r oD)).heap y).finalized = true :=
      fun y hy => stepFrame_fin_flag c { w with stack := rest } _ y (hN y hy) (hNlt y hy) hfl
    cases r with
    | cons x r =>
      intro g hg
      have : g = .deallocDrop N r oD ∨ g ∈ rest ∨ g.isDealloc = false := by
        simp only [stepFrame] at hg
        split at hg <;> simp [World.push] at hg <;> rcases hg with e | e | e
        · right; right; subst e; rfl
        · left; exact e
        · right; left; exact e
        · right; right; subst e; rfl
        · left; exact e
        · right; left; exact e
      rcases this with e | e | e
      · subst e; exact hNn
      · exact hrest g e
      · exact finOk_notDealloc e _
    | nil =>
      intro g hg
      have : g = .deallocDrop N [] oD ∨ g ∈ rest := by
        rcases deallocDrop_nil_stack c ({ w with stack := rest } : World) N oD with e | e
        · rw [e] at hg; right; exact hg
        · rw [e] at hg
          rcases List.mem_cons.1 hg with e' | e'
          · left; exact e'
          · right; exact e'
      rcases this with e | e
      · subst e; exact hNn
      · exact hrest g e
  | dropCc y =>
    apply hgen
    intro g hg
    simp only [stepFrame] at hg
    repeat' split at hg
    all_goals first
      | (simp [World.push] at hg; rcases hg with e | e | e <;> first | (left; exact e) | (right; subst e; rfl))
      | (simp [World.push] at hg; rcases hg with e | e <;> first | (left; exact e) | (right; subst e; rfl))
      | (left; simpa [World.push] using hg)
      | (exact destroyLast_frames c _ y hg)
  | dropCcAfterFin y oF =>
    apply hgen
    intro g hg
    simp only [stepFrame] at hg
    split at hg
    · left; simpa [World.push] using hg
    · exact destroyLast_frames c _ y hg
  | _ =>
    apply hplain
    simp only [stepFrame]
    repeat' split
    all_goals first
      | (pushed_tac; done)
      | (refine PushedPlain.trans ?_ (putH_pushed _ _ _); pushed_tac; done)

set_option maxHeartbeats 4000000 in
theorem unwindFrame_fin (c : Cfg) (w : World) (f : Frame) (x : Id) :
    ((unwindFrame c w f).heap x).finalized = (w.heap x).finalized := by
  cases f <;> simp only [unwindFrame] <;> repeat' split
  all_goals first
    | rfl
    | (simp [upd_fin_same, updAll_fin_same, World.push]; done)
    | (rw [updAll_fin_same _ _ _ _ (fun _ => rfl)])

set_option maxHeartbeats 4000000 in
theorem unwindFrame_drp (c : Cfg) (w : World) (f : Frame) (x : Id) (hx : (w.heap x).dropped = true) :
    ((unwindFrame c w f).heap x).dropped = true := by
  cases f <;> simp only [unwindFrame] <;> repeat' split
  all_goals first
    | exact hx
    | (simpa [upd_drp_same, updAll_drp_same, World.push] using hx)
    | (exact updAll_drp_same _ _ _ _ (fun _ => rfl) ▸ hx)
    | (apply updAll_drp_mono _ _ _ _ (fun o ho => by simp [ho]) hx)

theorem unwind_frames (c : Cfg) (w : World) (f : Frame) {g : Frame} (hg : g ∈ (unwindFrame c w f).stack) :
    g ∈ w.stack ∨ g.isDealloc = false := by
  rcases (unwindFrame_plain c w f).mem hg with e | e
  · exact Or.inl e
  · right; cases g <;> simp_all [Frame.plain2]

theorem reachableR_fd {c : Cfg} {nH nW nK : Nat} {w : World} (hc : c.fin = true) (h : ReachableR c nH nW nK w) : FD w := by
  induction h with
  | init => intro g hg; simp [World.init] at hg
  | top w op _ hs hm ih =>
    intro g hg
    simp only [List.mem_cons, List.mem_nil_iff, or_false] at hg
    rcases hg with e | e <;> subst e <;> trivial
  | step w hr hm ih =>
    have ha := reachable_all c nH nW nK w hr.reachable
    cases hs : w.stack with
    | nil =>
      have e : step c w = w := by unfold step; rw [hm]; simp only []; rw [hs]
      rw [e]; exact ih
    | cons f rest =>
      have e : step c w = stepFrame c { w with stack := rest } f := by unfold step; rw [hm]; simp only []; rw [hs]
      rw [e]
      exact stepFrame_fd c w f rest hc ha ih hs

/-- The same in **every reachable world**: a caught panic pops frames and clears no flag. -/
theorem reachable_fd {c : Cfg} {nH nW nK : Nat} {w : World} (hc : c.fin = true) (h : Reachable c nH nW nK w) : FD w := by
  induction h with
  | init => intro g hg; simp [World.init] at hg
  | top w op _ hs hm ih =>
    intro g hg
    simp only [List.mem_cons, List.mem_nil_iff, or_false] at hg
    rcases hg with e | e <;> subst e <;> trivial
  | step w hr ih =>
    have ha := reachable_all c nH nW nK w hr
    unfold step
    split
    · exact ih
    · exact ih
    · split
      · rename_i hs; intro g hg; simp [hs] at hg
      · rename_i f rest hs
        intro g hg
        rcases unwind_frames c { w with stack := rest } f hg with e | e
        · have := ih g (by rw [hs]; exact List.mem_cons_of_mem _ e)
          cases g <;> first | trivial | (simp only [Frame.finOk, unwindFrame_fin] at this ⊢; exact this)
        · exact finOk_notDealloc e _
    · split
      · exact ih
      · rename_i f rest hs
        exact stepFrame_fd c w f rest hc ha ih hs

theorem reachable_dd {c : Cfg} {nH nW nK : Nat} {w : World} (hc : c.weak = true) (h : Reachable c nH nW nK w) : DD w := by
  induction h with
  | init => intro N r d hm; simp [World.init] at hm
  | top w op _ hs hm ih => intro N r d hmem; simp at hmem
  | step w hr ih =>
    have ha := reachable_all c nH nW nK w hr
    unfold step
    split
    · exact ih
    · exact ih
    · split
      · rename_i hs; intro N r d hm; simp [hs] at hm
      · rename_i f rest hs
        intro N r d hm x hx
        rcases unwind_frames c { w with stack := rest } f hm with e | e
        · exact unwindFrame_drp c _ f x (ih N r d (by rw [hs]; exact List.mem_cons_of_mem _ e) x hx)
        · cases e
    · split
      · exact ih
      · rename_i f rest hs
        exact stepFrame_dd c w f rest hc ha ih hs

end RustCc
