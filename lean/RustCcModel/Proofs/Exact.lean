import RustCcModel.Proofs.AuxS
import RustCcModel.Proofs.InvReach
/-! **Exactness of the strong count in panic-free histories** (the upper half of I1).

`ReachableR`: the worlds reached from the initial one by micro-steps of the *running* machine only — no unwinding step
has ever been executed (a panic may be in the air: the last step may have raised it). In every such world, unless the
machine stopped on a debug assertion of the model (`stuck`), the count of every box equals the number of pointers to it
that exist: `rc x = refs w x`. The proof is the proof of `Counts` itself (`Proofs/Counts*.lean`), whose blocks carry
both inequalities when the exactness flag is on; the unwinding steps, which may forget the pointers held by the
frames they pop, are the only ones that switch the flag off. -/
namespace RustCc
open World

/-- Histories in which no unwinding step was ever executed. -/
inductive ReachableR (c : Cfg) (nH nW nK : Nat) : World → Prop
  | init : ReachableR c nH nW nK (World.init c nH nW nK)
  | step (w) : ReachableR c nH nW nK w → w.mode = .running → ReachableR c nH nW nK (step c w)
  | top (w) (op : Op) : ReachableR c nH nW nK w → w.stack = [] → w.mode = .running →
      ReachableR c nH nW nK { w with stack := [.script [op] none none true, .catchTop], events := [], ret := .ok }

theorem ReachableR.reachable {c : Cfg} {nH nW nK : Nat} {w : World} (h : ReachableR c nH nW nK w) : Reachable c nH nW nK w := by
  induction h with
  | init => exact .init
  | step w _ _ ih => exact .step w ih
  | top w op _ hs hm ih => exact .top w op ih hs hm

/-- What is carried along a panic-free history. -/
structure ExactInv (w : World) : Prop where
  kok : KOk w
  sok : SOk w
  exact : w.mode ≠ .stuck → CountsG true w

theorem reachableR_exactInv (c : Cfg) (nH nW nK : Nat) (w : World) (h : ReachableR c nH nW nK w) : ExactInv w := by
  induction h with
  | init => exact ⟨init_kOk c nH nW nK, init_sOk c nH nW nK, fun _ => init_counts c nH nW nK⟩
  | step w hr hm ih =>
    refine ⟨step_kOk c w ih.kok, step_sOk c w ih.sok, ?_⟩
    intro hns
    have hc : CountsG true w := ih.exact (by rw [hm]; exact fun e => nomatch e)
    have hinv := reachable_inv c nH nW nK w hr.reachable
    have h2 := step_countsG (ex := true) c w hc (fun _ => auxX_of ih.kok ih.sok)
      (fun k id sp sw rest hs => hinv.cyc_zero k id sp sw rest hs)
    have hfl : stepFlag true w (step c w) = true := by simp [stepFlag, hm, hns]
    rw [hfl] at h2
    exact h2
  | top w op hr hs hm ih =>
    refine ⟨?_, ?_, ?_⟩
    · have := ih.kok
      simp_all [KOk, Frame.kB]
    · exact ih.sok.of_same (fun _ => rfl)
    · intro _
      have h0 : CountsH true w [] := (ih.exact (by rw [hm]; exact fun e => nomatch e)).toH
      have h1 : CountsH true { w with stack := [], events := [], ret := .ok } [] := by
        refine CountsH.congr h0 ?_ ?_ ?_ ?_ ?_ ?_ ?_ <;> first | rfl | exact hs.symm
      exact ((h1.pushPlain .catchTop rfl rfl).pushPlain (.script [op] none none true) rfl rfl).toCounts0

/-- **In every world of a panic-free history the strong count is exact**: it equals the number of `Cc` pointers to the
box that exist — table entries, stashed clones, pointers held by running code, pointer fields of all objects. -/
theorem reachableR_count_exact (c : Cfg) (nH nW nK : Nat) (w : World) (h : ReachableR c nH nW nK w)
    (hns : w.mode ≠ .stuck) (x : Id) : (w.heap x).rc = refs w x := by
  have hc := (reachableR_exactInv c nH nW nK w h).exact hns
  exact Nat.le_antisymm (hc.ge rfl x) (hc.le x)

/-! ### Panic-free runs of the driver's `run` / `execTop` -/

/-- The machine never leaves the `running` mode during the run (no panic was raised, no assertion failed). -/
def runsClean (c : Cfg) : Nat → World → Bool
  | 0, _ => true
  | fuel + 1, w =>
    if w.stack.isEmpty ∧ w.mode = .running then true
    else decide (w.mode = .running) && runsClean c fuel (step c w)

theorem reachableR_run (c : Cfg) (nH nW nK : Nat) : ∀ (fuel : Nat) (w : World), ReachableR c nH nW nK w →
    runsClean c fuel w = true → ReachableR c nH nW nK (run c fuel w)
  | 0, _, h, _ => h
  | fuel + 1, w, h, hcl => by
    unfold run
    unfold runsClean at hcl
    split
    · exact h
    · rename_i hne
      rw [if_neg hne] at hcl
      have hcl' : w.mode = .running ∧ runsClean c fuel (step c w) = true := by simpa using hcl
      split
      · exact h
      · exact reachableR_run c nH nW nK fuel _ (.step w h hcl'.1) hcl'.2

theorem reachableR_execTop (c : Cfg) (nH nW nK : Nat) (fuel : Nat) (w : World) (op : Op) (h : ReachableR c nH nW nK w)
    (hs : w.stack = []) (hm : w.mode = .running)
    (hcl : runsClean c fuel { w with stack := [.script [op] none none true, .catchTop], events := [], ret := .ok } = true) :
    ReachableR c nH nW nK (execTop c fuel w op) := by
  unfold execTop
  split
  · exact h
  · exact reachableR_run c nH nW nK fuel _ (.top w op h hs hm) hcl

/-- A program (list of top-level operations) runs without any panic and every operation runs to completion. -/
def cleanProg (c : Cfg) (fuel : Nat) : World → List Op → Bool
  | _, [] => true
  | w, op :: ops =>
    w.stack.isEmpty && decide (w.mode = .running) &&
    runsClean c fuel { w with stack := [.script [op] none none true, .catchTop], events := [], ret := .ok } &&
    cleanProg c fuel (execTop c fuel w op) ops

/-- What the driver computes for a panic-free program is a world of a panic-free history. -/
theorem reachableR_prog (c : Cfg) (nH nW nK : Nat) (fuel : Nat) : ∀ (ops : List Op) (w : World), ReachableR c nH nW nK w →
    cleanProg c fuel w ops = true → ReachableR c nH nW nK (ops.foldl (execTop c fuel) w)
  | [], _, h, _ => h
  | op :: ops, w, h, hcl => by
    simp only [cleanProg, Bool.and_eq_true, decide_eq_true_eq, List.isEmpty_iff] at hcl
    obtain ⟨⟨⟨hs, hm⟩, hr⟩, hrest⟩ := hcl
    simp only [List.foldl_cons]
    exact reachableR_prog c nH nW nK fuel ops _ (reachableR_execTop c nH nW nK fuel w op h hs hm hr) hrest

end RustCc
