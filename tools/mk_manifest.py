#!/usr/bin/env python3
"""Writes MANIFEST.json from the table below (kept in one place so it stays valid)."""
import json
import os

VERIF = os.path.dirname(os.path.dirname(os.path.abspath(__file__)))

NOTE_COMMON = ("Trusted: Lean 4.33 kernel; axioms limited to propext / Classical.choice / Quot.sound (audited every run); the hand-written "
               "Lean model is tied to /repo by the correspondence check (seeded differential testing of the real crate against the compiled "
               "model driver, full observation lines incl. white-box snapshot) and by constants regenerated from the sources; harness, "
               "instrumented allocator and oracles are unverified Rust. ")

CLAIMS = {
    "C01": ("Proved end to end at the level of collection passes, for every reachable world of the machine (any programs, callbacks, nested collections, injected panics and their unwinding): the global invariants Counts (count >= existing pointers), Inv (marks = lists, buffered => tracing counter 0, freed => no count/mark) and Flags hold in every reachable world and discharge the hypotheses of graph theorem T1, so whatever a pass selects is referenced by no table entry, stashed clone, frame temporary, untraced field or dead value's field (reachable_pass_candidates_unreferenced), nothing reachable from the program through any chain of traced/untraced fields is ever selected (reachable_object_not_candidate), and no existing pointer ever targets a freed box (no_dangling_pointer). Not yet proved: that the *value* behind every program-reachable pointer is intact after caught panics (isolation of a half-destroyed garbage set, DESIGN.md §10); decided per run by the canary/reachability oracles and the correspondence.",
            "Lean proof (global machine invariants by induction over all micro-steps + T1 graph theorem, unbounded) + model/impl correspondence with UAF/canary/allocator oracles"),
    "C02": ("Graph theorem T2 (per-pass completeness + both queues drain with fuel = #objects) proved for all heaps. Proved for every collection pass of every panic-free history (reachable_pass_complete): the hypotheses of T2 are discharged from the machine invariants, and because strong counts are exact there, every member of the traced closure of the buffer that is not reachable from a member to which a pointer from outside the closure exists (table entry, stashed clone, temporary, untraced field, field of an object outside) is selected by the pass - garbage owned only through traced fields is always selected, whatever history preceded. Not yet proved: history-level coverage I10 (every garbage component has a buffered member); checked per run by the model-independent leak oracle after quiescent collections and by the correspondence of freed sets / allocated_bytes. The buffer and the collector's lists are proved at pointer level to be the plain lists the machine uses (Proofs/ListsRefine.lean, see C11), and src/lists.rs is run against that model.",
            "Lean proof (T2 completeness + termination; per-pass completeness in every panic-free reachable world) + correspondence + leak oracle"),
    "C03": ("Proved for every reachable world: a box is released only while it exists, exactly one free event per release, a freed identity stays freed (every allocation released at most once in any history), nothing that exists points to a released box; allocated bytes go down by exactly the box size. Proved for every history in which no panic has been unwound (HistR: all operations, callbacks, nested/automatic collections, resurrection, cleaners, new_cyclic): drop_in_place runs only on an intact value in an allocated box (drop_only_alive), EVERY VALUE IS DROPPED AT MOST ONCE in the whole history (dropped_at_most_once), nothing is done to an object after its destruction (no second drop, no finalize), a destroyed value stays destroyed and its identity is never reused, and every allocated box whose value is gone is owned by a frame (the Cc::drop destroying it, the new_cyclic building it, the deallocate_list loop) - invariant Life by induction over every running micro-step. A box is released only after its value is gone - dropped, moved out by try_unwrap, or never built (released_box_has_no_live_value, free_only_after_value_gone; invariants Owned/FreedDead). Step theorems on every release site (value marked dead before its fields are released, free after drop, new_cyclic guard emits no drop). After a caught panic 'dropped at most once' is not proved (needs the isolation invariant, DESIGN.md §10): decided per run by the allocator oracle (double free, layout mismatch, callback on dead value) and the correspondence of ordered drop/free events.",
            "Lean proof (free-at-most-once over all histories; drop-at-most-once and life-cycle invariant over panic-free histories) + correspondence + allocator oracle + layout grid"),
    "C04": ("Proved for every reachable world of the machine (any programs, callbacks, collections, injected panics, unwinding): the count of every box is >= the number of Cc pointers to it that exist (count_never_too_low); a box with count 0 / a freed box has no pointer to it; no pointer targets a freed box. Proved for every world of every panic-free history (no unwinding step executed so far; callbacks, nested/automatic collections, resurrection, cleaners, new_cyclic all included): strong_count is EXACT, count = number of existing pointers (strong_count_exact; same induction over all operations and frame steps with both inequalities, plus two auxiliary invariants: table indices of allocation frames in range, slot-map free lists name empty slots), also stated for what the driver computes for a panic-free program (strong_count_exact_prog); a concrete reachable world after a caught panic with count > pointers shows the restriction is necessary (the property allows exactly that). Step-level theorems for clone/drop (exactly +1/-1, last owner destroys in the same step whether buffered or not, listed objects only decremented). 'Everything it solely owned is reclaimed before drop returns' is checked per run (ordered events) and by the count oracle.",
            "Lean proof (count invariant, exact in panic-free histories, by induction over all micro-steps) + correspondence + count oracle"),
    "C05": ("Proved for every history in which no panic has been unwound: a finalizer is only ever called on an intact value in an allocated box (finalize_only_alive) and no finalize x follows drop x in the log of the whole history (no_finalize_after_drop) - from the life-cycle invariant Life (Proofs/Life*.lean, induction over every running micro-step). Step-level theorems: finalized flag set before the call on both paths, pass skips finalized members, a pass that finalized re-buffers and drops nothing (all finalizers of a set before any destructor), only a quiet pass deallocates, objects created while finalizing are born finalized, no finalizer frames without the feature. 'Only on garbage' is C01's candidate theorem. Proved for EVERY history of the running machine by a potential argument over all micro-steps (Proofs/FinOnce.lean): the number of finalize x events is at most 1 + the number of steps that cleared the finalized flag of x (finalize_at_most_once_unless_rearmed), and only finalize_again on a pointer to x clears it (only_finalize_again_rearms). The statements after caught panics are checked per run (ordered F/D events, finalize-twice and neighbour-canary oracles).",
            "Lean proof (life-cycle invariant over panic-free histories + step theorems + T1) + correspondence + finalizer oracles"),
    "C06": ("Termination of both tracing queues for every graph (fuel = #objects), pass cap of collect proved at frame level; safety/precision after resurrection are C01/C02 on the re-buffered state. Checked per run on resurrecting finalizer scripts.",
            "Lean proof (termination, pass cap) + correspondence"),
    "C07": ("Global invariant I6 'flags are the stack' proved preserved by EVERY micro-step (running and unwinding) for all programs, scripts and fault plans; corollary: after any history an idle machine has collecting=finalizing=dropping=false, is_tracing false, a new collection can start. Safety in continuations relies on C01/C03/C05/C08 (see those). Fault sweep in the correspondence.",
            "Lean inductive invariant over all micro-steps incl. unwinding + fault-injection correspondence"),
    "C08": ("strong_count/upgrade specification proved (alive <-> success, same allocation), Weak::new never upgrades, every member of a garbage set is marked dropped before its first destructor, weak drops are invisible to the collector's input. Access-safety over histories checked per run (canary of every upgraded value).",
            "Lean theorems on upgrade semantics + correspondence + canary oracle"),
    "C09": ("Proved for every reachable world: weak_count is never below the number of existing Weak pointers, a Weak's side record is live as long as any Weak to it exists, an accessible record is live, a record is released as soon as both the allocation's hold and the last Weak are gone (WeakOk invariant by induction over all micro-steps). Step lemmas: creation, exact -1 on Weak drop, hand-over when the allocation goes first. Exactness (=) in panic-free histories checked per run (weak_count/strong_count of every table entry after every op, metaFree events, allocator).",
            "Lean proof (weak-count invariant over all micro-steps) + correspondence"),
    "C10": ("Proved for every history of the running machine (Proofs/ActOnce.lean, induction over all micro-steps): EACH REGISTERED CLEANING ACTION RUNS AT MOST ONCE (action_at_most_once: identifiers are handed out from a counter, stored actions have pairwise distinct identifiers - invariant AOk - and an action is taken out of its slot before it runs, both in Cleanable::clean and in the map's drop glue); an action that ran is in no slot map any more and its identifier is never reused (action_ran_is_gone), so clean() afterwards finds nothing. Step lemmas: slot emptied before the action's script is entered on both paths; Cleanable drop only drops a Weak; clean after destruction is a no-op. 'Exactly once by the time the Cleaner is gone' (panic-free) and 'actions never reach a dropped object' are checked per run (ordered action events, cap-dead / action-early oracles).",
            "Lean proof (action-at-most-once over all histories of the running machine) + correspondence + action oracles"),
    "C11": ("Proved for every reachable world: allocated_bytes() equals the total size of the boxes that exist (BytesOk), buffered_objects_count() is the length of a duplicate-free buffer whose members are exactly the PossibleCycles-marked live boxes (buffer_exact, from Inv). Step lemmas: add_to_list/remove_from_list exact size change; clone leaves the buffer; executions_count grows in EVERY micro-step by exactly the number of collections the step starts (executions_count_exact, all modes). Checked per run by model-independent oracles (allocator sum vs allocated_bytes, buffer walk vs cached size, link integrity, marks). POINTER LEVEL (Model/Lists.lean, Proofs/Lists.lean, ListsRefine.lean): src/lists.rs - LinkedList, PossibleCycles with its cached size, LinkedQueue, sharing the two link fields of every box - is modelled statement by statement and proved to refine plain lists for every sequence of operations (step_refines / run_refines): the cached size is the number of boxes the buffer's iterator yields, which is exactly the specification's list, duplicate-free; a box is linked into at most one structure; an unlinked box has no dangling link; remove_first/poll/drop un-mark; mark_self_and_append is ++. That model is tied to the crate by the hook lists_run (real lists on scratch boxes) against the Lean driver and against the list specification evaluated in Python.",
            "Lean proof (bytes and buffer invariants over all micro-steps) + correspondence + buffer-walk oracle"),
    "C12": ("Proved for every reachable world, all nestings of callbacks and caught panics included (Proofs/TraceFlag.lean, TraceFlagEv.lean): EVERY trace EVENT IS EMITTED WITH is_tracing() = true AND EVERY finalize / drop / cleaning-action EVENT WITH is_tracing() = false (tracing_flag_of_every_callback); is_tracing() is false whenever anything but the collector's own loop or pass is on top of the stack - any script of user code, whatever encloses it (not_tracing_unless_collector_on_top; stack invariant tOk: the tracing flags are in force only directly under a collector frame) - and true whenever a pass is about to run. Step lemmas: collect clears finalizing/dropping, nested collect and auto-collect are no-ops while collecting, try_unwrap Err / finalize_again panic in callbacks, and (from I6, proved globally) is_tracing false when idle.",
            "Lean theorems + global flags invariant + correspondence"),
    "C13": ("try_unwrap case analysis proved: Err with unchanged world iff not unique (or in a callback); Ok world characterised (box released, value not in box, leaves the buffer, only free/metaFree events, no finalizer/destructor) - with the buffer invariant it needs proved for every reachable world (unwrapped_spec_reachable), and a unique pointer's target is owned by no collector list (unique_not_owned).",
            "Lean theorems on the try_unwrap step + correspondence + allocator oracle"),
    "C14": ("Closure-entry state (0 strong, 1 weak, uninitialised), Weak dead while strong count is 0, after return rc=1 and initialised, panic guard releases the box without any drop event and makes the side record inaccessible.",
            "Lean theorems on new_cyclic frames + correspondence + fault injection in closure"),
    "C15": ("Trigger decision iff documented disjunction; threshold after adjust is D*2^k >= D, > allocated, not needlessly high - proved for exact fractions and for the f64 product as computed (round-to-nearest-even model), for all inputs, parametric in D (regenerated). Tie: hook-based differential test of Config::adjust/should_collect + machine-level threshold after every op.",
            "Lean proof (policy arithmetic, unbounded) + differential test of adjust/should_collect"),
    "C16": ("All counter-word operations (strong, tracing, weak words) proved to saturate exactly at MAX with the word unchanged, never produce the reserved value, never spill into the flag bits (omega, for all words; limits regenerated from the sources); clone/upgrade at the limit proved to only start unwinding. Tie: EXHAUSTIVE comparison of every operation on all 2^16 words between the compiled crate and the model (complete for these finite functions), the C16 rule evaluated directly on the crate's table, and boundary programs (16381/16382/16383 clones, 32766/32767/32768 weaks, mixed clone+upgrade, then collection).",
            "Lean proof (word arithmetic, omega) + exhaustive 2^16 word-table correspondence + boundary programs"),
    "C17": ("visit = owned for every shape (structural induction over arbitrary nesting/arity/length), a borrowed RefCell reports nothing, non-owning types report nothing, nothing outside the owned set is ever reported. The substance is the tie: every real impl is exercised (all constructors, tuple arity 1..12, arrays 0..32, Vec/slice 0..6, each variant, borrowed/unborrowed RefCell, two-level nestings) and per-leaf trace/finalize report counts are compared with the model's.",
            "Lean proof (structural induction) + per-impl report counting on the real crate"),
    "C18": ("For all type definitions: each non-ignored field of a non-ignored variant is visited exactly once, ignored ones never, Drop emitted iff no unsafe_no_drop, derived Finalize empty. Tie: randomly generated definitions compiled with the real macro each run, per-field report counts compared; compile-fail probe for the Drop conflict (E0119) and compile-pass probe for unsafe_no_drop.",
            "Lean proof over a derive AST + generated-definition compile-and-count + compile-fail probe"),
    "C19": ("Non-interference theorem over the product of per-thread worlds for EVERY interleaving (each thread's state depends only on its own steps). Partial, named: OS threads, TLS implementation and destructor order are not modelled. Tie: static scan (no state outside thread_local!, no Send/Sync impls, PhantomData<Rc> markers), generated programs on 2..16 concurrently running threads vs sequential model runs, 8 thread-exit scenarios (user TLS before/after collector TLS; unique/buffered/cyclic).",
            "Lean proof (product non-interference) + static scan + concurrent-thread correspondence + teardown scenarios"),
    "C20": ("Layout arithmetic for all sizes/alignments (payload offset aligned, payload inside the box, ZST). Forwarding impls are one-line delegations (true by unfolding): the substance is the tie - grid of payload layouts incl. ZST and 4096-aligned through every pointer-producing API with address/alignment/ptr_eq checks and predicted box layout, and all forwarded methods compared with the payload's on value sets incl. NaN/+-0.0.",
            "Lean proof (layout arithmetic) + layout grid and forwarding probes on the real crate"),
}


def main():
    props = [json.loads(l)["id"] for l in open(os.path.join(VERIF, "properties.jsonl"))]
    extra_path = os.path.join(VERIF, "tools", "manifest_extra.json")
    extra = json.load(open(extra_path)) if os.path.exists(extra_path) else {}
    claims = dict(CLAIMS)
    claims.update({k: tuple(v) for k, v in extra.get("claims", {}).items()})
    checks = []
    for p in props:
        if p in claims:
            text, tech = claims[p]
            checks.append({
                "property_id": p,
                "quick_cmd": "./check %s quick" % p,
                "thorough_cmd": "./check %s thorough" % p,
                "evidence_file": "/verif/evidence/%s.json" % p,
                "replay_cmd_template": "./check %s quick --replay {path}" % p,
                "engine": "lean4-model+correspondence",
                "level_claimed": {"category": "proof", "text": text, "design_ref": "DESIGN.md §7 (%s), §11" % p},
                "level_note": NOTE_COMMON,
                "technique": tech,
            })
    na = [{"property_id": p, "reason": extra.get("not_applicable", {}).get(p, "check not finished in this commit (model exists in DESIGN.md §7; will be claimed when its correspondence runs)")}
          for p in props if p not in claims]
    m = {
        "version": 1,
        "setup_cmd": "./check setup",
        "hooks": {
            "guard": "cargo feature `verif-hooks` of rust-cc (off by default)",
            "enable": "harness/Cargo.toml depends on rust-cc at /repo with features [\"std\", \"verif-hooks\", ...]",
            "baseline_off_cmd": "cd /repo && cargo nextest run --workspace --no-fail-fast --offline",
            "source_commits": ["01a5a82", "84236da", "078c073"],
            "add_only": True,
        },
        "engines": [{"name": "lean4-model+correspondence", "path": "/verif/check", "serves_properties": [c["property_id"] for c in checks],
                     "kind_free_text": "Lean 4 theorems about a hand-written executable model + differential correspondence against the real crate through a Rust harness"}],
        "checks": checks,
        "not_applicable": na,
        "notes": "See DESIGN.md. Genuine defects D1-D4 found while proving were repaired by four `fix:` commits in /repo (known_findings.json).",
    }
    json.dump(m, open(os.path.join(VERIF, "MANIFEST.json"), "w"), indent=1)
    print("claimed", len(checks), "not_applicable", len(na))


if __name__ == "__main__":
    main()
