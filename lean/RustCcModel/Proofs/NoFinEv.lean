import RustCcModel.Proofs.NoFin
import RustCcModel.Proofs.Untouched
/-! Without the `finalization` feature `Finalize::finalize` is never called: no `callFin` frame is ever pushed and no
`finalize` event is ever logged, in every reachable world. -/
namespace RustCc
open World

def Frame.notCallFin : Frame → Bool
  | .callFin _ => false
  | .finalizePass .. => false
  | .dropCcAfterFin .. => false
  | _ => true

def NCF (w : World) : Prop := w.stack.all Frame.notCallFin = true

macro "ncf_close" : tactic => `(tactic| first
  | (simp_all [NCF, Frame.notCallFin, World.putH, World.startCollect, World.cloneOk]; done)
  | (simp_all [NCF, Frame.notCallFin, World.putH, World.startCollect, World.cloneOk]; split <;> simp_all [Frame.notCallFin]; done))

set_option maxHeartbeats 4000000 in
theorem execOp_ncf (c : Cfg) (w : World) (self wc : Option Id) (op : Op) (h : NCF w) :
    NCF (execOp c w self wc op) := by
  cases op with
  | fault kind n j => cases kind <;> simpa [execOp, NCF] using h
  | _ =>
    simp only [execOp]
    repeat' split
    all_goals ncf_close

set_option maxHeartbeats 8000000 in
theorem stepFrame_ncf (c : Cfg) (hc : c.fin = false) (w : World) (f : Frame) (hf : f.notCallFin = true) (h : NCF w) :
    NCF (stepFrame c w f) := by
  cases f with
  | callFin x => simp [Frame.notCallFin] at hf
  | finalizePass N r hh o => simp [Frame.notCallFin] at hf
  | dropCcAfterFin x o => simp [Frame.notCallFin] at hf
  | script ops self wc top =>
    cases ops with
    | nil => simpa [stepFrame] using h
    | cons op ops =>
      simp only [stepFrame]
      have h1 : NCF (w.push (.script ops self wc top)) := by simp_all [NCF, Frame.notCallFin]
      have h2 := execOp_ncf c _ self wc op h1
      split
      · exact h2
      · simpa [NCF] using h2
  | collectPass =>
    simp only [stepFrame, startDealloc]
    generalize tracePhasesF _ _ _ _ _ = r
    obtain ⟨res, fault⟩ := r
    cases res <;> simp only [] <;> repeat' split
    all_goals (simp_all [NCF, Frame.notCallFin]; done)
  | deallocDrop N r oD =>
    cases r with
    | cons x r => simp only [stepFrame]; repeat' split
                  all_goals ncf_close
    | nil =>
      simp only [stepFrame]
      split
      · ncf_close
      · simp only [NCF, foldl_free_stack] at *; exact h
  | _ =>
    simp only [stepFrame, destroyLast, startDealloc]
    repeat' split
    all_goals first
      | ncf_close
      | (simp_all [NCF, Frame.notCallFin, World.putH]; split <;> simp_all [Frame.notCallFin]; done)

set_option maxHeartbeats 4000000 in
theorem unwindFrame_ncf (c : Cfg) (w : World) (f : Frame) (h : NCF w) : NCF (unwindFrame c w f) := by
  cases f <;> simp only [unwindFrame] <;> repeat' split
  all_goals ncf_close

theorem step_ncf (c : Cfg) (hc : c.fin = false) (w : World) (h : NCF w) : NCF (step c w) := by
  unfold step
  split
  · exact h
  · exact h
  · split
    · simpa [NCF] using h
    · rename_i f rest hs
      apply unwindFrame_ncf
      simp_all [NCF]
  · split
    · exact h
    · rename_i f rest hs
      apply stepFrame_ncf c hc
      · simp_all [NCF]
      · simp_all [NCF]

theorem reachable_ncf {c : Cfg} {nH nW nK : Nat} {w : World} (hc : c.fin = false) (h : Reachable c nH nW nK w) :
    ∀ x, Frame.callFin x ∉ w.stack := by
  have : NCF w := by
    induction h with
    | init => simp [NCF, World.init]
    | step w _ ih => exact step_ncf c hc w ih
    | top w op _ hs hm ih => simp [NCF, Frame.notCallFin]
  intro x hx
  have := List.all_eq_true.1 this _ hx
  simp [Frame.notCallFin] at this


/-- No `finalize` event in the log of any reachable world without the feature. -/
theorem reachable_no_finalize_event {c : Cfg} {nH nW nK : Nat} {w : World} (hc : c.fin = false) (h : Reachable c nH nW nK w) :
    ∀ x, (false, x) ∉ vEv w.events := by
  induction h with
  | init => intro x; simp [World.init]
  | top w op _ hs hm ih => intro x; simp
  | step w hw ih =>
    intro x
    have hncf := reachable_ncf hc hw
    unfold step
    split
    · exact ih x
    · exact ih x
    · split
      · exact ih x
      · rename_i f rest hs
        rw [unwindFrame_vEv]; exact ih x
    · split
      · exact ih x
      · rename_i f rest hs
        rw [stepFrame_vEv]
        intro hm
        rcases List.mem_append.1 hm with h1 | h1
        · exact ih x h1
        · cases f <;> simp [Frame.vev] at h1
          exact hncf _ (by rw [hs]; exact List.mem_cons_self ..)

end RustCc
