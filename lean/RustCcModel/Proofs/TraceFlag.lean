import RustCcModel.Proofs.LifeHist
/-! **`is_tracing()` is true exactly while the collector traces**: the tracing flags `(collecting, ¬finalizing, ¬dropping)` are
in force only while a `collect` loop frame or a `__collect` pass frame is on top of the stack — never while a script (user
code), a pending finalizer / destructor call or the drop glue of a value is. -/
namespace RustCc
open World
open T1 (Mark)

def Frame.quiet : Frame → Bool
  | .collectLoop .. | .collectPass => true
  | _ => false

/-- Guard frames under which the tracing flags are off. -/
def Frame.guardNT : Frame → Bool
  | .dropCcAfterFin .. | .afterDropValue .. | .finalizePass .. | .deallocDrop .. => true
  | _ => false

def tracing : Flags := (true, false, false)

/-- The flags a stack puts in force are not the tracing flags. -/
def nt (st : List Frame) : Prop := expected st ≠ some tracing

/-- Every suffix of the stack under which the tracing flags are in force starts with a collector frame. -/
def tOk : List Frame → Prop
  | [] => True
  | f :: rest => (expected (f :: rest) = some tracing → f.quiet = true) ∧ tOk rest

theorem nt_guard (g : Frame) (st : List Frame) (hg : g.guardNT = true) : nt (g :: st) := by
  unfold nt
  simp only [expected]
  cases expected st with
  | none => simp
  | some b =>
    obtain ⟨a, b1, b2⟩ := b
    cases g <;> simp [Frame.guardNT] at hg <;> simp [Frame.flags, tracing] <;> split <;> simp

theorem nt_neutral (g : Frame) (st : List Frame) (hg : g.neutral = true) (h : nt st) : nt (g :: st) := by
  unfold nt at *; rw [expected_cons_neutral g st hg]; exact h

/-- `st'` is `st` with frames pushed, each of which is a collector frame, a guard that switches tracing off, or a neutral
frame pushed where tracing is off. -/
inductive GP (st : List Frame) : List Frame → Prop
  | refl : GP st st
  | quiet (g : Frame) (st' : List Frame) : g.quiet = true → GP st st' → GP st (g :: st')
  | guard (g : Frame) (st' : List Frame) : g.guardNT = true → GP st st' → GP st (g :: st')
  | neutral (g : Frame) (st' : List Frame) : g.neutral = true → nt st' → GP st st' → GP st (g :: st')

theorem GP.tOk {st st' : List Frame} (h : GP st st') (ht : tOk st) : tOk st' := by
  induction h with
  | refl => exact ht
  | quiet g st' hg _ ih => exact ⟨fun _ => hg, ih⟩
  | guard g st' hg _ ih => exact ⟨fun he => absurd he (nt_guard g st' hg), ih⟩
  | neutral g st' hg hn _ ih => exact ⟨fun he => absurd he (nt_neutral g st' hg hn), ih⟩

theorem tOk_tail {f : Frame} {rest : List Frame} (h : tOk (f :: rest)) : tOk rest := h.2

/-- The flags in force under a frame that is not a collector frame are not the tracing flags. -/
theorem nt_of_top {f : Frame} {rest : List Frame} (h : tOk (f :: rest)) (hq : f.quiet = false) : nt (f :: rest) := by
  intro he
  have := h.1 he
  rw [hq] at this; cases this

theorem nt_rest_of_neutral {f : Frame} {rest : List Frame} (h : tOk (f :: rest)) (hq : f.quiet = false) (hn : f.neutral = true) :
    nt rest := by
  have := nt_of_top h hq
  unfold nt at *
  rwa [expected_cons_neutral f rest hn] at this

/-- Close `nt st` for an explicit stack above one where `hnt` holds. -/
macro "nt_tac" hnt:term : tactic => `(tactic| (
  repeat (first
    | exact $hnt
    | exact nt_guard _ _ (by rfl)
    | (refine nt_neutral _ _ (by rfl) ?_))))

/-- Close `GP rest st'` for an explicit stack, given `hnt : nt rest` for neutral frames pushed directly on `rest`. -/
macro "gp_tac" hnt:term : tactic => `(tactic| (
  try simp [World.startCollect, World.cloneOk]
  repeat (first
    | exact GP.refl
    | (refine GP.quiet _ _ (by rfl) ?_)
    | (refine GP.guard _ _ (by rfl) ?_)
    | (refine GP.neutral _ _ (by rfl) (by nt_tac $hnt) ?_))))

theorem putH_gp (w : World) (k : Nat) (y : Id) (hnt : nt w.stack) : GP w.stack (w.putH k y).stack := by
  unfold World.putH; split
  · exact GP.neutral _ _ rfl hnt GP.refl
  · exact GP.refl

theorem GP.trans {a b c : List Frame} (h1 : GP a b) (h2 : GP b c) : GP a c := by
  induction h2 with
  | refl => exact h1
  | quiet g st hg _ ih => exact GP.quiet g st hg ih
  | guard g st hg _ ih => exact GP.guard g st hg ih
  | neutral g st hg hn _ ih => exact GP.neutral g st hg hn ih

set_option maxHeartbeats 8000000 in
/-- A script operation pushes only frames that keep `tOk` (it runs where tracing is off). -/
theorem execOp_gp (c : Cfg) (w : World) (self wc : Option Id) (op : Op) (hnt : nt w.stack) :
    GP w.stack (execOp c w self wc op).stack := by
  cases op with
  | fault kind n j => cases kind <;> exact GP.refl
  | _ =>
    simp only [execOp]
    repeat' split
    all_goals (gp_tac hnt)

theorem destroyLast_gp (c : Cfg) (w : World) (x : Id) : GP w.stack (destroyLast c w x).stack := by
  simp only [destroyLast]
  repeat' split
  all_goals (gp_tac (nt_guard _ _ (by rfl)))

set_option maxHeartbeats 8000000 in
/-- Executing the top frame pushes only frames that keep `tOk`: a frame that is neither a collector frame nor a guard runs
where tracing is off. -/
theorem stepFrame_gp (c : Cfg) (w : World) (f : Frame)
    (hnt : f.neutral = true → f.quiet = false → nt w.stack) : GP w.stack (stepFrame c w f).stack := by
  cases f with
  | script ops self wc top =>
    have hn : nt w.stack := hnt rfl rfl
    cases ops with
    | nil => exact GP.refl
    | cons op ops =>
      simp only [stepFrame]
      have h1 : nt (w.push (.script ops self wc top)).stack := nt_neutral _ _ rfl hn
      have h2 := execOp_gp c _ self wc op h1
      have h3 : GP w.stack (w.push (.script ops self wc top)).stack := GP.neutral _ _ rfl hn GP.refl
      split
      · exact h3.trans h2
      · exact h3.trans h2
  | collectPass =>
    simp only [stepFrame, startDealloc]
    generalize tracePhasesF _ _ _ _ _ = r
    obtain ⟨res, fault⟩ := r
    cases res <;> simp only [] <;> repeat' split
    all_goals (gp_tac (nt_guard _ _ (by rfl)))
  | collectLoop n oF oD =>
    simp only [stepFrame]
    repeat' split
    all_goals (gp_tac (nt_guard _ _ (by rfl)))
  | dropCcAfterFin x oF =>
    simp only [stepFrame]
    split
    · gp_tac (nt_guard _ _ (by rfl))
    · exact destroyLast_gp c { w with finalizing := oF } x
  | afterDropValue x oD =>
    simp only [stepFrame]
    repeat' split
    all_goals (gp_tac (nt_guard _ _ (by rfl)))
  | finalizePass N r hasFin oF =>
    simp only [stepFrame, startDealloc]
    repeat' split
    all_goals (gp_tac (nt_guard _ _ (by rfl)))
  | deallocDrop N r oD =>
    cases r with
    | cons x r => simp only [stepFrame]; repeat' split
                  all_goals (gp_tac (nt_guard _ _ (by rfl)))
    | nil =>
      simp only [stepFrame]
      split
      · gp_tac (nt_guard _ _ (by rfl))
      · simp only [foldl_free_stack]; exact GP.refl
  | _ =>
    have hn : nt w.stack := hnt rfl rfl
    simp only [stepFrame, destroyLast, startDealloc]
    repeat' split
    all_goals first
      | (gp_tac (by assumption); done)
      | (refine GP.trans ?_ (putH_gp _ _ _ ?_) <;> (try simp) <;> first | exact GP.refl | assumption)

set_option maxHeartbeats 4000000 in
theorem unwindFrame_gp (c : Cfg) (w : World) (f : Frame)
    (hnt : f.neutral = true → f.quiet = false → nt w.stack) : GP w.stack (unwindFrame c w f).stack := by
  cases f <;> simp only [unwindFrame] <;> repeat' split
  all_goals first
    | (gp_tac (by first | assumption | exact hnt rfl rfl); done)

/-- **The stack invariant of the tracing flag** is kept by every step. -/
theorem step_tOk (c : Cfg) (w : World) (h : tOk w.stack) : tOk (step c w).stack := by
  unfold step
  split
  · exact h
  · exact h
  · split
    · rename_i hs; rw [hs]; trivial
    · rename_i f rest hs
      rw [hs] at h
      exact (unwindFrame_gp c { w with stack := rest } f (fun hn hq => nt_rest_of_neutral h hq hn)).tOk h.2
  · split
    · exact h
    · rename_i f rest hs
      rw [hs] at h
      exact (stepFrame_gp c { w with stack := rest } f (fun hn hq => nt_rest_of_neutral h hq hn)).tOk h.2

theorem reachable_tOk {c : Cfg} {nH nW nK : Nat} {w : World} (h : Reachable c nH nW nK w) : tOk w.stack := by
  induction h with
  | init => trivial
  | step w _ ih => exact step_tOk c w ih
  | top w op _ hm hs ih =>
    refine ⟨fun he => ?_, ⟨fun he => ?_, trivial⟩⟩ <;> simp [expected, Frame.flags, tracing] at he

end RustCc
