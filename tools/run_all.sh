#!/bin/bash
# Runs every registered quick check on the current tree (sequentially) and summarises.
cd /verif
git -C /repo status --porcelain --untracked-files=no | grep -q . && { echo "/repo has local changes"; exit 2; }
(cd lean && lake build 2>&1 | grep -E "^error|error:" | head -5)
fail=0
for p in $(python3 -c "import json;print(' '.join(c['property_id'] for c in json.load(open('MANIFEST.json'))['checks']))"); do
  s=$(date +%s)
  out=$(./check $p ${1:-quick} 2>&1); rc=$?
  e=$(( $(date +%s) - s ))
  echo "$p rc=$rc ${e}s $(echo "$out" | grep -c VIOLATION) violations"
  [ $rc -ne 0 ] && { fail=1; echo "$out" | grep VIOLATION | head -3; }
done
python3-vt - <<'PY'
import json, jsonschema, glob
sch = json.load(open('/root/.vp/EVIDENCE.schema.json'))
for f in sorted(glob.glob('/verif/evidence/*.json')):
    try:
        jsonschema.validate(json.load(open(f)), sch)
    except Exception as ex:
        print("INVALID", f, str(ex)[:200])
jsonschema.validate(json.load(open('/verif/MANIFEST.json')), json.load(open('/root/.vp/MANIFEST.schema.json')))
print("schemas ok")
PY
exit $fail
