//! Interpreter of line-protocol programs against the real crate, with model-independent oracles.

use std::cell::{Cell, RefCell};
use std::collections::{HashMap, HashSet};
use std::panic::{catch_unwind, AssertUnwindSafe};
use std::rc::Rc;

use rust_cc::state;
use rust_cc::verif_hooks as hooks;
use rust_cc::{collect_cycles, Cc, Context, Finalize, Trace};

use crate::alloc::{self, Tag};
use crate::ev;
use crate::ops::*;

#[cfg(feature = "weak")]
pub use rust_cc::weak::Weak;
#[cfg(not(feature = "weak"))]
pub struct Weak<T>(std::marker::PhantomData<T>);
#[cfg(not(feature = "weak"))]
unsafe impl<T> Trace for Weak<T> {
    fn trace(&self, _: &mut Context<'_>) {}
}
#[cfg(not(feature = "weak"))]
impl<T> Finalize for Weak<T> {}

#[cfg(feature = "clean")]
pub use rust_cc::cleaners::{Cleanable, Cleaner};
#[cfg(not(feature = "clean"))]
pub struct Cleaner;
#[cfg(not(feature = "clean"))]
pub struct Cleanable;
#[cfg(not(feature = "clean"))]
unsafe impl Trace for Cleaner {
    fn trace(&self, _: &mut Context<'_>) {}
}
#[cfg(not(feature = "clean"))]
impl Finalize for Cleaner {}

const ALIVE: u64 = 0xA11C_E5EE_D5A1_1CE5;
const DEAD: u64 = 0xDEAD_DEAD_DEAD_DEAD;

/// Wrapper whose `Trace` impl reports nothing: a `Cc` inside is an untraced owning field.
pub struct NoTrace<T>(pub T);
unsafe impl<T> Trace for NoTrace<T> {
    fn trace(&self, _: &mut Context<'_>) {}
}
impl<T> Finalize for NoTrace<T> {}

pub struct Node {
    /// identity = creation index of the box (assigned when the box is allocated)
    pub idc: Cell<usize>,
    canary: Cell<u64>,
    boxed: Cell<bool>,
    moved: Cell<bool>,
    slots: Vec<RefCell<Option<Cc<Node>>>>,
    uslots: NoTrace<Vec<RefCell<Option<Cc<Node>>>>>,
    wslots: Vec<RefCell<Option<Weak<Node>>>>,
    cleaner: Option<Cleaner>,
    fin: usize,
    drp: usize,
}

fn is_tracing() -> bool {
    state::is_tracing().unwrap_or(false)
}

fn b01(b: bool) -> u8 {
    b as u8
}

struct Injected;

fn raise_logged() -> ! {
    ev!("P");
    it().leaky.set(true);
    std::panic::resume_unwind(Box::new(Injected))
}

unsafe impl Trace for Node {
    fn trace(&self, ctx: &mut Context<'_>) {
        let it = it();
        if !it.check_self(self, "T") {
            return;
        }
        ev!("T{}:{}", self.idc.get(), b01(is_tracing()));
        // fault plan: the k-th trace call panics after forwarding j non-empty traced fields
        let fault = {
            let f = it.f_trace.get();
            match f {
                Some((k, j)) => {
                    if k <= 1 {
                        it.f_trace.set(None);
                        Some(j)
                    } else {
                        it.f_trace.set(Some((k - 1, j)));
                        None
                    }
                }
                None => None,
            }
        };
        let mut forwarded = 0usize;
        for s in self.slots.iter() {
            let occupied = s.try_borrow().map(|b| b.is_some()).unwrap_or(false);
            if occupied {
                if fault == Some(forwarded) {
                    raise_logged();
                }
                forwarded += 1;
            }
            s.trace(ctx);
        }
        if fault.is_some() {
            raise_logged();
        }
        self.uslots.trace(ctx);
        self.wslots.trace(ctx);
        self.cleaner.trace(ctx);
    }
}

impl Finalize for Node {
    fn finalize(&self) {
        let it = it();
        if !it.check_self(self, "F") {
            return;
        }
        ev!("F{}:{}", self.idc.get(), b01(is_tracing()));
        let _cb = InCallback::enter_fd(b'F');
        // C05 oracles: at most once per arming; never with the feature off; everything reachable from a
        // finalizing object is still undropped
        {
            let mut fc = it.fin_counts.borrow_mut();
            let e = fc.entry(self.idc.get()).or_insert((0, 0));
            e.0 += 1;
            if e.0 > 1 + e.1 {
                ev!("!fin-twice:{}", self.idc.get());
            }
        }
        if !it.feat.fin {
            ev!("!fin-without-feature:{}", self.idc.get());
        }
        // ... and only on garbage: not reachable from any pointer the program holds
        // (asserted only while no callback of this operation has done anything yet: an earlier finalizer of the
        // same pass may legitimately have resurrected this object)
        if !it.cb_ops_ran.get() && it.reachable_from_tables(self.idc.get()) {
            ev!("!fin-reachable:{}", self.idc.get());
        }
        it.check_reachable_alive(self, "F");
        if tick(&it.f_fin) {
            raise_logged();
        }
        it.run_script(self.fin, Some(self as *const Node), None);
    }
}

impl Drop for Node {
    fn drop(&mut self) {
        if !self.boxed.get() {
            return;
        }
        let it = it();
        if self.moved.get() {
            ev!("V{}", self.idc.get());
            self.canary.set(DEAD);
            return;
        }
        if !it.check_self(self, "D") {
            return;
        }
        ev!("D{}:{}", self.idc.get(), b01(is_tracing()));
        // C04 / C05 oracle: a due finalizer runs before the destructor (unless a caught panic skipped it)
        if it.feat.fin && !it.leaky.get() {
            let id = self.idc.get();
            let never = it.fin_counts.borrow().get(&id).map(|e| e.0 == 0).unwrap_or(true);
            if never && !it.born_finalized.borrow().contains(&id) {
                ev!("!drop-unfinalized:{}", id);
            }
        }
        let _cb = InCallback::enter_fd(b'D');
        self.canary.set(DEAD);
        if tick(&it.f_drop) {
            raise_logged();
        }
        it.run_script(self.drp, Some(self as *const Node), None);
    }
}

/// Marks a finalizer / destructor / cleaning action as running (also while it unwinds).
struct InCallback(bool);
impl InCallback {
    fn enter() -> InCallback {
        let it = it();
        it.cb_depth.set(it.cb_depth.get() + 1);
        it.cb_kinds.borrow_mut().push(b'K');
        InCallback(false)
    }
    /// a finalizer or destructor of a payload value (the collector flags are certainly set)
    fn enter_fd(kind: u8) -> InCallback {
        let it = it();
        it.cb_depth.set(it.cb_depth.get() + 1);
        it.fd_depth.set(it.fd_depth.get() + 1);
        it.cb_kinds.borrow_mut().push(kind);
        InCallback(true)
    }
}
impl Drop for InCallback {
    fn drop(&mut self) {
        let it = it();
        it.cb_depth.set(it.cb_depth.get() - 1);
        it.cb_kinds.borrow_mut().pop();
        if self.0 {
            it.fd_depth.set(it.fd_depth.get() - 1);
        }
    }
}

fn tick(c: &Cell<Option<usize>>) -> bool {
    match c.get() {
        Some(n) => {
            if n <= 1 {
                c.set(None);
                true
            } else {
                c.set(Some(n - 1));
                false
            }
        }
        None => false,
    }
}

#[derive(Clone, Copy, PartialEq, Eq)]
enum Kind {
    Node,
    Map,
}

#[derive(Clone, Copy)]
struct BoxInfo {
    box_addr: usize,
    kind: Kind,
    node: *const Node, // null for maps
    owner: usize,      // maps: id of the node owning the cleaner
}

struct ActionInfo {
    aid: Cell<Option<usize>>,
    map_id: Cell<Option<usize>>,
    cap: Cell<Option<usize>>, // id of the captured object while the action has not run
}

pub struct Feat {
    pub fin: bool,
    pub weak: bool,
    pub clean: bool,
    pub auto: bool,
}

pub struct Interp {
    pub feat: Feat,
    scripts: Vec<Rc<Vec<Op>>>,
    h: RefCell<Vec<Option<Cc<Node>>>>,
    w: RefCell<Vec<Option<Weak<Node>>>>,
    k: RefCell<Vec<Option<Cleanable>>>,
    next_id: Cell<usize>,
    next_aid: Cell<usize>,
    f_trace: Cell<Option<(usize, usize)>>,
    f_fin: Cell<Option<usize>>,
    f_drop: Cell<Option<usize>>,
    f_act: Cell<Option<usize>>,
    f_body: Cell<Option<usize>>,
    registry: RefCell<Vec<Option<BoxInfo>>>,
    metas: RefCell<HashSet<usize>>,
    actions: RefCell<Vec<Rc<ActionInfo>>>,
    leaky: Cell<bool>,
    panicked_ever: Cell<bool>,
    wc_stack: RefCell<Vec<*const Weak<Node>>>,
    stash: RefCell<HashMap<usize, Vec<Cc<Node>>>>,
    wstash: RefCell<HashMap<usize, Vec<Weak<Node>>>>,
    /// finalize calls / re-arms per object, cleaning-action runs per action (C05 / C10 oracles)
    fin_counts: RefCell<HashMap<usize, (usize, usize)>>,
    action_runs: RefCell<HashMap<usize, usize>>,
    /// number of finalizer / destructor / cleaning-action callbacks currently running
    cb_depth: Cell<usize>,
    /// kinds of the callbacks currently running, innermost last (b'F' finalizer, b'D' destructor, b'K' cleaning action)
    cb_kinds: RefCell<Vec<u8>>,
    /// number of `Finalize::finalize` / `Drop::drop` callbacks of payload values currently running
    fd_depth: Cell<usize>,
    /// explicit `collect_cycles()` calls made during the current top-level operation
    explicit_collects: Cell<usize>,
    /// allocation attempts (`Cc::new`, `new_cyclic`, first `register`) made during the current top-level operation
    alloc_attempts: Cell<usize>,
    /// objects that report `already_finalized()` right after creation (created while finalizing)
    born_finalized: RefCell<HashSet<usize>>,
    /// some operation of a callback script already ran during the current top-level operation
    /// (callbacks may legitimately make garbage reachable again)
    cb_ops_ran: Cell<bool>,
    /// action ids of the cleanables in the `K` table, and the action id `clean()` is currently being called for
    k_aids: RefCell<Vec<Option<usize>>>,
    cleaning: RefCell<Vec<usize>>,
}

thread_local! {
    static INTERP: Cell<*const Interp> = const { Cell::new(std::ptr::null()) };
}

fn it() -> &'static Interp {
    let p = INTERP.with(|c| c.get());
    assert!(!p.is_null(), "no interpreter installed on this thread");
    unsafe { &*p }
}

#[derive(Clone, Copy)]
struct Ctx {
    selfp: Option<*const Node>,
    wc: Option<*const Weak<Node>>,
}

enum Ret {
    Ok,
    Skip,
    Err,
    None,
    Some(usize),
    Unwrapped(usize),
}

impl Ret {
    fn str(&self) -> String {
        match self {
            Ret::Ok => "ok".into(),
            Ret::Skip => "skip".into(),
            Ret::Err => "err".into(),
            Ret::None => "none".into(),
            Ret::Some(x) => format!("some:{}", x),
            Ret::Unwrapped(x) => format!("unwrapped:{}", x),
        }
    }
}

impl Interp {
    pub fn new(feat: Feat, scripts: Vec<Vec<Op>>, nh: usize, nw: usize, nk: usize) -> Interp {
        Interp {
            feat,
            scripts: scripts.into_iter().map(Rc::new).collect(),
            h: RefCell::new((0..nh).map(|_| None).collect()),
            w: RefCell::new((0..nw).map(|_| None).collect()),
            k: RefCell::new((0..nk).map(|_| None).collect()),
            next_id: Cell::new(0),
            next_aid: Cell::new(0),
            f_trace: Cell::new(None),
            f_fin: Cell::new(None),
            f_drop: Cell::new(None),
            f_act: Cell::new(None),
            f_body: Cell::new(None),
            registry: RefCell::new(Vec::new()),
            metas: RefCell::new(HashSet::new()),
            actions: RefCell::new(Vec::new()),
            leaky: Cell::new(false),
            panicked_ever: Cell::new(false),
            wc_stack: RefCell::new(Vec::new()),
            stash: RefCell::new(HashMap::new()),
            wstash: RefCell::new(HashMap::new()),
            fin_counts: RefCell::new(HashMap::new()),
            action_runs: RefCell::new(HashMap::new()),
            cb_depth: Cell::new(0),
            cb_kinds: RefCell::new(Vec::new()),
            fd_depth: Cell::new(0),
            explicit_collects: Cell::new(0),
            alloc_attempts: Cell::new(0),
            born_finalized: RefCell::new(HashSet::new()),
            cb_ops_ran: Cell::new(false),
            k_aids: RefCell::new((0..nk).map(|_| None).collect()),
            cleaning: RefCell::new(Vec::new()),
        }
    }

    /// A node like the ones programs create (to measure the size of its box).
    pub fn probe_node(&self) -> Node {
        let n = self.make_node(0, &NewSpec { ns: 0, nu: 0, nw: 0, cleaner: false, fin: 0, drp: 0 });
        n
    }

    pub fn install(&self) {
        INTERP.with(|c| c.set(self as *const Interp));
    }

    pub fn uninstall() {
        INTERP.with(|c| c.set(std::ptr::null()));
    }

    // ---------------------------------------------------------------- registry / oracles

    fn fresh_id(&self) -> usize {
        let id = self.next_id.get();
        self.next_id.set(id + 1);
        id
    }

    fn register_box(&self, id: usize, info: BoxInfo) {
        let mut r = self.registry.borrow_mut();
        while r.len() <= id {
            r.push(None);
        }
        r[id] = Some(info);
        drop(r);
        alloc::set_tag(info.box_addr, Tag::Box(id));
    }

    fn info(&self, id: usize) -> Option<BoxInfo> {
        self.registry.borrow().get(id).copied().flatten()
    }

    fn id_of_box(&self, addr: usize) -> Option<usize> {
        self.registry.borrow().iter().enumerate().find_map(|(i, b)| match b {
            Some(b) if b.box_addr == addr => Some(i),
            _ => None,
        })
    }

    fn box_live(&self, id: usize) -> bool {
        self.info(id).map(|b| alloc::is_live(b.box_addr)).unwrap_or(false)
    }

    /// Tag the side record of an object as soon as it can exist.
    fn note_meta(&self, id: usize, snap: &hooks::Snapshot) {
        if let Some(m) = snap.metadata_addr {
            if self.metas.borrow_mut().insert(m) {
                alloc::set_tag(m, Tag::Meta(id));
            }
        }
    }

    /// A callback was invoked on `n`: it must be an intact value in a live box.
    fn check_self(&self, n: &Node, what: &str) -> bool {
        let canary = n.canary.get();
        if canary != ALIVE {
            ev!("!{}-dead:{}", what, n.idc.get());
            return false;
        }
        if n.boxed.get() && !self.box_live(n.idc.get()) {
            ev!("!{}-freed:{}", what, n.idc.get());
            return false;
        }
        true
    }

    /// The registered object holds an intact value in a live box.
    fn value_alive(&self, b: &BoxInfo) -> bool {
        !b.node.is_null() && alloc::is_live(b.box_addr) && unsafe { &*b.node }.canary.get() == ALIVE
    }

    /// Is the node behind this pointer an intact value in a live box?
    fn node_ok(&self, p: *const Node) -> Result<usize, usize> {
        let n = unsafe { &*p };
        let id = n.idc.get();
        if n.canary.get() == ALIVE && self.box_live(id) {
            Ok(id)
        } else {
            Err(id)
        }
    }

    /// Is object `target` reachable from the program's tables (and stashes) through any chain of `Cc` fields?
    fn reachable_from_tables(&self, target: usize) -> bool {
        let mut stack: Vec<*const Node> = match self.h.try_borrow() {
            Ok(h) => h.iter().flatten().map(|cc| &**cc as *const Node).collect(),
            Err(_) => return false,
        };
        if let Ok(st) = self.stash.try_borrow() {
            for v in st.values() {
                if let Some(cc) = v.first() {
                    stack.push(&**cc as *const Node);
                }
            }
        }
        let mut seen: HashSet<usize> = HashSet::new();
        while let Some(p) = stack.pop() {
            let Ok(id) = self.node_ok(p) else { continue };
            if id == target {
                return true;
            }
            if !seen.insert(id) {
                continue;
            }
            let n = unsafe { &*p };
            for s in n.slots.iter().chain(n.uslots.0.iter()) {
                if let Ok(b) = s.try_borrow() {
                    if let Some(cc) = b.as_ref() {
                        stack.push(&**cc as *const Node);
                    }
                }
            }
        }
        false
    }

    /// All objects reachable from `start` through every `Cc` field (traced or not) are intact.
    fn check_reachable_alive(&self, start: &Node, what: &str) {
        let mut seen: HashSet<usize> = HashSet::new();
        let mut stack: Vec<*const Node> = vec![start as *const Node];
        while let Some(p) = stack.pop() {
            match self.node_ok(p) {
                Ok(id) => {
                    if !seen.insert(id) {
                        continue;
                    }
                    let n = unsafe { &*p };
                    for s in n.slots.iter().chain(n.uslots.0.iter()) {
                        if let Ok(b) = s.try_borrow() {
                            if let Some(cc) = b.as_ref() {
                                stack.push(&**cc as *const Node);
                            }
                        }
                    }
                }
                Err(id) => {
                    ev!("!{}-reach-dead:{}", what, id);
                }
            }
        }
    }

    // ---------------------------------------------------------------- operand resolution

    fn self_node(&self, ctx: &Ctx) -> Option<&Node> {
        ctx.selfp.map(|p| unsafe { &*p })
    }

    /// Runs `f` on the `Cc` stored at `r`, if any (the table / field stays borrowed meanwhile).
    fn with_cref<R>(&self, ctx: &Ctx, r: CRef, f: impl FnOnce(&Cc<Node>) -> R) -> Option<R> {
        match r {
            CRef::H(k) => {
                let h = self.h.borrow();
                h.get(k)?.as_ref().map(f)
            }
            CRef::SF(i) => {
                let n = self.self_node(ctx)?;
                let b = n.slots.get(i)?.try_borrow().ok()?;
                b.as_ref().map(f)
            }
            CRef::SU(i) => {
                let n = self.self_node(ctx)?;
                let b = n.uslots.0.get(i)?.try_borrow().ok()?;
                b.as_ref().map(f)
            }
        }
    }

    /// The node designated by `n`, checked by the dereference oracle.
    fn node_of(&self, ctx: &Ctx, n: NRef) -> Option<&Node> {
        let p: *const Node = match n {
            NRef::SelfNode => ctx.selfp?,
            NRef::Of(r) => self.with_cref(ctx, r, |cc| {
                // Deref::deref (panics while tracing in debug builds; never the case here)
                &**cc as *const Node
            })?,
        };
        match self.node_ok(p) {
            Ok(_) => Some(unsafe { &*p }),
            Err(id) => {
                ev!("!deref-dead:{}", id);
                None
            }
        }
    }

    fn slot_of<'a>(&self, n: &'a Node, s: Slot) -> Option<&'a RefCell<Option<Cc<Node>>>> {
        match s {
            Slot::F(i) => n.slots.get(i),
            Slot::U(i) => n.uslots.0.get(i),
        }
    }

    #[cfg(feature = "weak")]
    fn with_wsel<R>(&self, ctx: &Ctx, w: WSel, f: impl FnOnce(&Weak<Node>) -> R) -> Option<R> {
        match w {
            WSel::W(k) => {
                let t = self.w.borrow();
                t.get(k)?.as_ref().map(f)
            }
            WSel::SW(i) => {
                let n = self.self_node(ctx)?;
                let b = n.wslots.get(i)?.try_borrow().ok()?;
                b.as_ref().map(f)
            }
            WSel::WC => ctx.wc.map(|p| f(unsafe { &*p })),
        }
    }

    fn h_free(&self, k: usize) -> bool {
        let h = self.h.borrow();
        k < h.len() && h[k].is_none()
    }

    fn w_free(&self, k: usize) -> bool {
        let w = self.w.borrow();
        k < w.len() && w[k].is_none()
    }

    fn k_free(&self, k: usize) -> bool {
        let t = self.k.borrow();
        k < t.len() && t[k].is_none()
    }

    /// Stores a pointer in `H[k]`; an entry filled meanwhile by a callback is dropped afterwards
    /// (with the table no longer borrowed).
    fn put_h(&self, k: usize, cc: Cc<Node>) {
        let old = self.h.borrow_mut()[k].replace(cc);
        drop(old);
    }

    fn make_node(&self, id: usize, sp: &NewSpec) -> Node {
        Node {
            idc: Cell::new(id),
            canary: Cell::new(ALIVE),
            boxed: Cell::new(false),
            moved: Cell::new(false),
            slots: (0..sp.ns).map(|_| RefCell::new(None)).collect(),
            uslots: NoTrace((0..sp.nu).map(|_| RefCell::new(None)).collect()),
            wslots: (0..sp.nw).map(|_| RefCell::new(None)).collect(),
            cleaner: if sp.cleaner && self.feat.clean { Some(new_cleaner()) } else { None },
            fin: sp.fin,
            drp: sp.drp,
        }
    }

    fn adopt(&self, cc: &Cc<Node>) {
        let snap = hooks::snapshot(cc);
        let n: &Node = &**cc;
        n.boxed.set(true);
        self.register_box(n.idc.get(), BoxInfo { box_addr: snap.box_addr, kind: Kind::Node, node: n as *const Node, owner: 0 });
        let size = alloc::block_at(snap.box_addr).map(|b| b.size).unwrap_or(0);
        ev!("A{}:{}", n.idc.get(), size);
        if cc_finalized(cc) == 1 {
            self.born_finalized.borrow_mut().insert(n.idc.get());
        }
        self.oracle_born(n.idc.get(), cc_finalized(cc) == 1);
    }

    /// C05: an object created directly inside a finalizer reports `already_finalized()`; one created outside
    /// every callback does not.
    fn oracle_born(&self, id: usize, finalized: bool) {
        if !self.feat.fin {
            return;
        }
        let innermost = self.cb_kinds.borrow().last().copied();
        match innermost {
            Some(b'F') if !finalized => ev!("!born-unfinalized:{}", id),
            None if finalized => ev!("!born-finalized-outside:{}", id),
            _ => {}
        }
    }

    fn run_script(&self, sid: usize, selfp: Option<*const Node>, wc: Option<*const Weak<Node>>) {
        let Some(script) = self.scripts.get(sid).cloned() else { return };
        let ctx = Ctx { selfp, wc };
        for op in script.iter() {
            let _ = self.exec_op(op, &ctx);
        }
    }

    // ---------------------------------------------------------------- operations

    fn exec_op(&self, op: &Op, ctx: &Ctx) -> Ret {
        if matches!(op, Op::New(..) | Op::NewCyclic(..) | Op::Reg(..)) {
            self.alloc_attempts.set(self.alloc_attempts.get() + 1);
        }
        if self.cb_depth.get() > 0 && !matches!(op, Op::Nop) {
            self.cb_ops_ran.set(true);
        }
        match op {
            Op::Nop => Ret::Ok,
            Op::Panic => raise_logged(),
            Op::Fault(kind, n, j) => {
                match kind {
                    FaultKind::Trace => self.f_trace.set(Some((*n, *j))),
                    FaultKind::Fin => self.f_fin.set(Some(*n)),
                    FaultKind::Drop => self.f_drop.set(Some(*n)),
                    FaultKind::Action => self.f_act.set(Some(*n)),
                    FaultKind::Body => self.f_body.set(Some(*n)),
                }
                Ret::Ok
            }
            Op::Collect => {
                self.explicit_collects.set(self.explicit_collects.get() + 1);
                collect_cycles();
                Ret::Ok
            }
            Op::New(k, sp) => {
                if !self.h_free(*k) {
                    return Ret::Skip;
                }
                let node = self.make_node(usize::MAX, sp);
                let cc = Cc::new(node);
                // identity = creation index of the box, assigned now that it exists
                cc.idc.set(self.fresh_id());
                self.adopt(&cc);
                self.put_h(*k, cc);
                Ret::Ok
            }
            Op::NewCyclic(k, sp, body, selfw) => self.op_new_cyclic(*k, sp, *body, *selfw),
            Op::Clone(r, k) => {
                if !self.h_free(*k) {
                    return Ret::Skip;
                }
                match self.with_cref(ctx, *r, |cc| cc.clone()) {
                    Some(c) => {
                        self.put_h(*k, c);
                        Ret::Ok
                    }
                    None => Ret::Skip,
                }
            }
            Op::Drop(k) => {
                let taken = {
                    let mut h = self.h.borrow_mut();
                    h.get_mut(*k).and_then(|e| e.take())
                };
                match taken {
                    Some(cc) => {
                        // C04 oracle: outside every collection and callback, dropping the only pointer to an object
                        // destroys it (or its finalizer resurrects it): it cannot survive with a strong count of 0
                        let flags = hooks::phase_flags().unwrap_or((false, false, false));
                        let idle = ctx.selfp.is_none() && self.cb_depth.get() == 0 && !is_tracing() && !flags.0 && !flags.1 && !flags.2;
                        let watch = if idle && cc.strong_count() == 1 { Some(hooks::snapshot(&cc).box_addr) } else { None };
                        // C02 / C11 oracle: outside every collection and callback, a `Cc::drop` that leaves the count above 0
                        // buffers the object (it may have become the root of a garbage cycle)
                        let shared = if idle && cc.strong_count() >= 2 { Some(hooks::snapshot(&cc).box_addr) } else { None };
                        drop(cc);
                        if let Some(addr) = shared {
                            if alloc::is_live(addr) {
                                let snap = unsafe { hooks::snapshot_at(addr) };
                                let v = hooks::counter_apply(snap.tracing_word, snap.counter_word, None);
                                if v.mark != 1 {
                                    ev!("!dec-not-buffered:{}:{}", self.id_of_box(addr).unwrap_or(usize::MAX), v.mark);
                                }
                            }
                        }
                        if let Some(addr) = watch {
                            if alloc::is_live(addr) {
                                let snap = unsafe { hooks::snapshot_at(addr) };
                                let v = hooks::counter_apply(snap.tracing_word, snap.counter_word, None);
                                if v.counter == 0 {
                                    ev!("!last-drop-kept:{}", self.id_of_box(addr).unwrap_or(usize::MAX));
                                }
                            }
                        }
                        Ret::Ok
                    }
                    None => Ret::Skip,
                }
            }
            Op::SetF(n, s, r) => {
                let Some(node) = self.node_of(ctx, *n) else { return Ret::Skip };
                let Some(cell) = self.slot_of(node, *s) else { return Ret::Skip };
                let Some(new) = self.with_cref(ctx, *r, |cc| cc.clone()) else { return Ret::Skip };
                let old = cell.replace(Some(new));
                drop(old);
                Ret::Ok
            }
            Op::MoveF(n, s, k) => {
                // safe Rust cannot move a pointer while the target is borrowed through that very pointer
                if matches!(n, NRef::Of(CRef::H(k2)) if k2 == k) {
                    return Ret::Skip;
                }
                let Some(node) = self.node_of(ctx, *n) else { return Ret::Skip };
                if self.h.borrow().get(*k).map(|e| e.is_none()).unwrap_or(true) {
                    return Ret::Skip;
                }
                let Some(cell) = self.slot_of(node, *s) else { return Ret::Skip };
                let moved = self.h.borrow_mut()[*k].take();
                let old = cell.replace(moved);
                drop(old);
                Ret::Ok
            }
            Op::ClrF(n, s) => {
                let Some(node) = self.node_of(ctx, *n) else { return Ret::Skip };
                let Some(cell) = self.slot_of(node, *s) else { return Ret::Skip };
                let old = cell.borrow_mut().take();
                match old {
                    Some(cc) => {
                        drop(cc);
                        Ret::Ok
                    }
                    None => Ret::Skip,
                }
            }
            Op::TakeF(n, s, k) => {
                let Some(node) = self.node_of(ctx, *n) else { return Ret::Skip };
                let Some(cell) = self.slot_of(node, *s) else { return Ret::Skip };
                if cell.borrow().is_none() || !self.h_free(*k) {
                    return Ret::Skip;
                }
                let cc = cell.borrow_mut().take().unwrap();
                self.put_h(*k, cc);
                Ret::Ok
            }
            Op::GetF(n, s, k) => {
                let Some(node) = self.node_of(ctx, *n) else { return Ret::Skip };
                let Some(cell) = self.slot_of(node, *s) else { return Ret::Skip };
                if cell.borrow().is_none() || !self.h_free(*k) {
                    return Ret::Skip;
                }
                let cc = cell.borrow().as_ref().unwrap().clone();
                self.put_h(*k, cc);
                Ret::Ok
            }
            Op::MarkAlive(r) => match self.with_cref(ctx, *r, |cc| cc.mark_alive()) {
                Some(()) => Ret::Ok,
                None => Ret::Skip,
            },
            Op::FinAgain(k) => {
                #[cfg(feature = "fin")]
                {
                    let mut h = self.h.borrow_mut();
                    match h.get_mut(*k).and_then(|e| e.as_mut()) {
                        Some(cc) => {
                            let id = cc.idc.get();
                            cc.finalize_again();
                            self.fin_counts.borrow_mut().entry(id).or_insert((0, 0)).1 += 1;
                            if self.fd_depth.get() > 0 {
                                ev!("!finagain-in-callback:{}", id);
                            }
                            Ret::Ok
                        }
                        None => Ret::Skip,
                    }
                }
                #[cfg(not(feature = "fin"))]
                {
                    let _ = k;
                    Ret::Skip
                }
            }
            Op::Unwrap(k) => {
                let taken = {
                    let mut h = self.h.borrow_mut();
                    h.get_mut(*k).and_then(|e| e.take())
                };
                let Some(cc) = taken else { return Ret::Skip };
                let id = cc.idc.get();
                // C13 oracle: Ok exactly when the pointer is unique and no finalizer / destructor / action is running
                // (inside a cleaning action alone the expectation depends on who runs the action: not asserted)
                let unique = cc.strong_count() == 1;
                let must_ok = unique && self.cb_depth.get() == 0;
                let must_err = !unique || self.fd_depth.get() > 0;
                // ... and on Err nothing changes: same pointer, same counts, same buffer, same finalization state
                let before = (hooks::snapshot(&cc), state::buffered_objects_count().ok(), cc.strong_count());
                let res = Cc::try_unwrap(cc);
                if let Err(back) = &res {
                    let after = (hooks::snapshot(back), state::buffered_objects_count().ok(), back.strong_count());
                    if before != after {
                        ev!("!unwrap-err-changed:{}:{}", id, if before.1 != after.1 { "buffer" } else if before.2 != after.2 { "count" } else { "object-state" });
                    }
                }
                if (must_ok && res.is_err()) || (must_err && res.is_ok()) {
                    ev!("!unwrap-wrong:{}:{}", id, if must_ok { "err-but-unique" } else { "ok-but-shared-or-in-callback" });
                }
                match res {
                    Ok(node) => {
                        node.moved.set(true);
                        if node.canary.get() != ALIVE {
                            ev!("!unwrap-dead:{}", id);
                        }
                        // the harness drops the value right away (its fields are released by the drop glue)
                        let guard = RetOnUnwind;
                        drop(node);
                        std::mem::forget(guard);
                        Ret::Unwrapped(id)
                    }
                    Err(cc) => {
                        self.put_h(*k, cc);
                        Ret::Err
                    }
                }
            }
            Op::Down(r, k) => self.op_down(ctx, *r, *k),
            Op::Up(w, k) => self.op_up(ctx, *w, *k),
            Op::WClone(w, k) => self.op_wclone(ctx, *w, *k),
            Op::WDrop(k) => self.op_wdrop(*k),
            Op::WNew(k) => self.op_wnew(*k),
            Op::SetW(n, i, w) => self.op_setw(ctx, *n, *i, *w),
            Op::ClrW(n, i) => self.op_clrw(ctx, *n, *i),
            Op::Reg(n, sc, k, cap) => self.op_reg(ctx, *n, *sc, *k, *cap),
            Op::Clean(k) => self.op_clean(*k),
            Op::CDrop(k) => self.op_cdrop(*k),
            Op::CloneN(r, n) => {
                let Some(id) = self.with_cref(ctx, *r, |cc| cc.idc.get()) else { return Ret::Skip };
                for _ in 0..*n {
                    let c = self.with_cref(ctx, *r, |cc| cc.clone()).unwrap();
                    self.stash.borrow_mut().entry(id).or_default().push(c);
                }
                Ret::Ok
            }
            Op::DropN(r, n) => {
                let Some(id) = self.with_cref(ctx, *r, |cc| cc.idc.get()) else { return Ret::Skip };
                for _ in 0..*n {
                    let c = self.stash.borrow_mut().get_mut(&id).and_then(|v| v.pop());
                    match c {
                        Some(c) => drop(c),
                        None => break,
                    }
                }
                Ret::Ok
            }
            Op::DownN(r, n) => self.op_downn(ctx, *r, *n),
            Op::WDropN(r, n) => self.op_wdropn(ctx, *r, *n),
            Op::CfgAuto(b) => {
                #[cfg(feature = "auto")]
                {
                    let _ = rust_cc::config::config(|c| c.set_auto_collect(*b));
                    Ret::Ok
                }
                #[cfg(not(feature = "auto"))]
                {
                    let _ = b;
                    Ret::Skip
                }
            }
            Op::CfgBuf(b) => {
                #[cfg(feature = "auto")]
                {
                    let v = b.and_then(std::num::NonZeroUsize::new);
                    let _ = rust_cc::config::config(|c| c.set_buffered_objects_threshold(v));
                    Ret::Ok
                }
                #[cfg(not(feature = "auto"))]
                {
                    let _ = b;
                    Ret::Skip
                }
            }
            Op::CfgPct(bits) => {
                #[cfg(feature = "auto")]
                {
                    let p = f64::from_bits(*bits);
                    let _ = rust_cc::config::config(|c| c.set_adjustment_percent(p));
                    Ret::Ok
                }
                #[cfg(not(feature = "auto"))]
                {
                    let _ = bits;
                    Ret::Skip
                }
            }
        }
    }

    #[cfg(not(feature = "weak"))]
    fn op_new_cyclic(&self, _k: usize, _sp: &NewSpec, _body: usize, _selfw: Option<usize>) -> Ret {
        Ret::Skip
    }

    #[cfg(feature = "weak")]
    fn op_new_cyclic(&self, k: usize, sp: &NewSpec, body: usize, selfw: Option<usize>) -> Ret {
        if !self.h_free(k) {
            return Ret::Skip;
        }
        let idcell = Cell::new(usize::MAX);
        let cc = Cc::new_cyclic(|weak: &Weak<Node>| {
            // the box exists, the value does not
            let id = self.fresh_id();
            idcell.set(id);
            let box_addr = hooks::weak_box_addr(weak);
            self.register_box(id, BoxInfo { box_addr, kind: Kind::Node, node: std::ptr::null(), owner: 0 });
            let size = alloc::block_at(box_addr).map(|b| b.size).unwrap_or(0);
            ev!("A{}:{}", id, size);
            if let Some((m, _)) = hooks::weak_snapshot(weak) {
                if self.metas.borrow_mut().insert(m) {
                    alloc::set_tag(m, Tag::Meta(id));
                }
            }
            if weak.strong_count() != 0 || weak.upgrade().is_some() {
                ev!("!cyclic-alive-inside:{}", id);
            }
            if tick(&self.f_body) {
                raise_logged();
            }
            self.run_script(body, None, Some(weak as *const Weak<Node>));
            if weak.strong_count() != 0 {
                ev!("!cyclic-alive-inside:{}", id);
            }
            let node = self.make_node(id, sp);
            if let Some(i) = selfw {
                if let Some(cell) = node.wslots.get(i) {
                    *cell.borrow_mut() = Some(weak.clone());
                }
            }
            node
        });
        let id = idcell.get();
        {
            let n: &Node = &*cc;
            n.boxed.set(true);
            let snap = hooks::snapshot(&cc);
            if n.idc.get() != id {
                ev!("!newcyc-id:{}", n.idc.get());
            }
            if cc.strong_count() != 1 {
                ev!("!cyclic-count:{}", id);
            }
            if cc_finalized(&cc) == 1 {
                self.born_finalized.borrow_mut().insert(id);
            }
            self.oracle_born(id, cc_finalized(&cc) == 1);
            let mut r = self.registry.borrow_mut();
            if let Some(Some(b)) = r.get_mut(id) {
                if b.box_addr != snap.box_addr {
                    ev!("!newcyc-addr:{}", id);
                }
                b.node = n as *const Node;
            }
        }
        self.put_h(k, cc);
        Ret::Ok
    }

    #[cfg(not(feature = "weak"))]
    fn op_down(&self, _: &Ctx, _: CRef, _: usize) -> Ret { Ret::Skip }
    #[cfg(not(feature = "weak"))]
    fn op_up(&self, _: &Ctx, _: WSel, _: usize) -> Ret { Ret::Skip }
    #[cfg(not(feature = "weak"))]
    fn op_wclone(&self, _: &Ctx, _: WSel, _: usize) -> Ret { Ret::Skip }
    #[cfg(not(feature = "weak"))]
    fn op_wdrop(&self, _: usize) -> Ret { Ret::Skip }
    #[cfg(not(feature = "weak"))]
    fn op_wnew(&self, _: usize) -> Ret { Ret::Skip }
    #[cfg(not(feature = "weak"))]
    fn op_setw(&self, _: &Ctx, _: NRef, _: usize, _: WSel) -> Ret { Ret::Skip }
    #[cfg(not(feature = "weak"))]
    fn op_clrw(&self, _: &Ctx, _: NRef, _: usize) -> Ret { Ret::Skip }

    #[cfg(feature = "weak")]
    fn op_down(&self, ctx: &Ctx, r: CRef, k: usize) -> Ret {
        if !self.w_free(k) {
            return Ret::Skip;
        }
        let res = self.with_cref(ctx, r, |cc| {
            let id = cc.idc.get();
            // tag the side record even if `downgrade` panics after creating it
            struct TagOnExit<'a>(&'a Interp, &'a Cc<Node>, usize);
            impl Drop for TagOnExit<'_> {
                fn drop(&mut self) {
                    let snap = hooks::snapshot(self.1);
                    self.0.note_meta(self.2, &snap);
                }
            }
            let _t = TagOnExit(self, cc, id);
            cc.downgrade()
        });
        match res {
            Some(weak) => {
                self.w.borrow_mut()[k] = Some(weak);
                Ret::Ok
            }
            None => Ret::Skip,
        }
    }

    #[cfg(not(feature = "weak"))]
    fn op_downn(&self, _: &Ctx, _: CRef, _: usize) -> Ret { Ret::Skip }
    #[cfg(not(feature = "weak"))]
    fn op_wdropn(&self, _: &Ctx, _: CRef, _: usize) -> Ret { Ret::Skip }

    #[cfg(feature = "weak")]
    fn op_downn(&self, ctx: &Ctx, r: CRef, n: usize) -> Ret {
        let Some(id) = self.with_cref(ctx, r, |cc| cc.idc.get()) else { return Ret::Skip };
        for _ in 0..n {
            let w = self.with_cref(ctx, r, |cc| {
                struct TagOnExit<'a>(&'a Interp, &'a Cc<Node>, usize);
                impl Drop for TagOnExit<'_> {
                    fn drop(&mut self) {
                        let snap = hooks::snapshot(self.1);
                        self.0.note_meta(self.2, &snap);
                    }
                }
                let _t = TagOnExit(self, cc, id);
                cc.downgrade()
            })
            .unwrap();
            self.wstash.borrow_mut().entry(id).or_default().push(w);
        }
        Ret::Ok
    }

    #[cfg(feature = "weak")]
    fn op_wdropn(&self, ctx: &Ctx, r: CRef, n: usize) -> Ret {
        let Some(id) = self.with_cref(ctx, r, |cc| cc.idc.get()) else { return Ret::Skip };
        for _ in 0..n {
            let w = self.wstash.borrow_mut().get_mut(&id).and_then(|v| v.pop());
            match w {
                Some(w) => drop(w),
                None => break,
            }
        }
        Ret::Ok
    }

    #[cfg(feature = "weak")]
    fn op_up(&self, ctx: &Ctx, w: WSel, k: usize) -> Ret {
        if !self.h_free(k) {
            return Ret::Skip;
        }
        match self.with_wsel(ctx, w, |weak| weak.upgrade()) {
            Some(Some(cc)) => {
                // C08 oracle: an upgraded pointer gives access to an intact value
                let p = &*cc as *const Node;
                let id = match self.node_ok(p) {
                    Ok(id) => id,
                    Err(id) => {
                        ev!("!up-dead:{}", id);
                        id
                    }
                };
                self.put_h(k, cc);
                Ret::Some(id)
            }
            Some(None) => {
                // C08 oracle: None although the program holds a Cc to that very allocation whose value is intact
                let target = self.with_wsel(ctx, w, |weak| if is_dangling(weak) { None } else { Some(hooks::weak_box_addr(weak)) }).flatten();
                if let Some(addr) = target {
                    let held = self.h.borrow().iter().flatten().any(|cc| hooks::snapshot(cc).box_addr == addr)
                        || self.stash.borrow().values().any(|v| v.first().map(|cc| hooks::snapshot(cc).box_addr == addr).unwrap_or(false));
                    if held {
                        if let Some(id) = self.id_of_box(addr) {
                            if self.info(id).map(|b| self.value_alive(&b)).unwrap_or(false) {
                                ev!("!up-none-live:{}", id);
                            }
                        }
                    }
                }
                Ret::None
            }
            None => Ret::Skip,
        }
    }

    #[cfg(feature = "weak")]
    fn op_wclone(&self, ctx: &Ctx, w: WSel, k: usize) -> Ret {
        if !self.w_free(k) {
            return Ret::Skip;
        }
        match self.with_wsel(ctx, w, |weak| weak.clone()) {
            Some(c) => {
                self.w.borrow_mut()[k] = Some(c);
                Ret::Ok
            }
            None => Ret::Skip,
        }
    }

    #[cfg(feature = "weak")]
    fn op_wdrop(&self, k: usize) -> Ret {
        let taken = {
            let mut t = self.w.borrow_mut();
            t.get_mut(k).and_then(|e| e.take())
        };
        match taken {
            Some(weak) => {
                drop(weak);
                Ret::Ok
            }
            None => Ret::Skip,
        }
    }

    #[cfg(feature = "weak")]
    fn op_wnew(&self, k: usize) -> Ret {
        if !self.w_free(k) {
            return Ret::Skip;
        }
        self.w.borrow_mut()[k] = Some(Weak::new());
        Ret::Ok
    }

    #[cfg(feature = "weak")]
    fn op_setw(&self, ctx: &Ctx, n: NRef, i: usize, w: WSel) -> Ret {
        let Some(node) = self.node_of(ctx, n) else { return Ret::Skip };
        let Some(cell) = node.wslots.get(i) else { return Ret::Skip };
        // `Weak::new()` values are not stored in fields (the model has no dangling field)
        let new = self.with_wsel(ctx, w, |weak| if weak.weak_count() == 0 && weak.strong_count() == 0 && is_dangling(weak) { None } else { Some(weak.clone()) });
        match new {
            Some(Some(c)) => {
                let old = cell.replace(Some(c));
                drop(old);
                Ret::Ok
            }
            _ => Ret::Skip,
        }
    }

    #[cfg(feature = "weak")]
    fn op_clrw(&self, ctx: &Ctx, n: NRef, i: usize) -> Ret {
        let Some(node) = self.node_of(ctx, n) else { return Ret::Skip };
        let Some(cell) = node.wslots.get(i) else { return Ret::Skip };
        let old = cell.borrow_mut().take();
        match old {
            Some(weak) => {
                drop(weak);
                Ret::Ok
            }
            None => Ret::Skip,
        }
    }

    #[cfg(not(feature = "clean"))]
    fn op_reg(&self, _: &Ctx, _: NRef, _: usize, _: usize, _: Option<CRef>) -> Ret { Ret::Skip }
    #[cfg(not(feature = "clean"))]
    fn op_clean(&self, _: usize) -> Ret { Ret::Skip }
    #[cfg(not(feature = "clean"))]
    fn op_cdrop(&self, _: usize) -> Ret { Ret::Skip }

    #[cfg(feature = "clean")]
    fn op_reg(&self, ctx: &Ctx, n: NRef, script: usize, k: usize, cap: Option<CRef>) -> Ret {
        let Some(node) = self.node_of(ctx, n) else { return Ret::Skip };
        let Some(cleaner) = node.cleaner.as_ref() else { return Ret::Skip };
        if !self.k_free(k) {
            return Ret::Skip;
        }
        let owner_id = node.idc.get();
        let captured: Option<Cc<Node>> = match cap {
            Some(r) => self.with_cref(ctx, r, |cc| cc.clone()),
            None => None,
        };
        let info = Rc::new(ActionInfo {
            aid: Cell::new(None),
            map_id: Cell::new(None),
            cap: Cell::new(captured.as_ref().map(|c| c.idc.get())),
        });
        let info2 = info.clone();
        let had_map = cleaner.verif_map_snapshot().is_some();
        // the closure owns the captured pointer; it is released when the closure ends, unwinds or is dropped unused
        let guard = CapGuard(captured, info.clone());
        let action = move || {
            let it = it();
            let _captured = guard;
            ev!("K{}:{}", info2.aid.get().map(|a| a as i64).unwrap_or(-1), b01(is_tracing()));
            let _cb = InCallback::enter();
            // C10 oracle: an action runs because its `clean()` was called, or because its Cleaner is being dropped
            if let (Some(a), Some(map)) = (info2.aid.get(), info2.map_id.get()) {
                let by_clean = it.cleaning.borrow().contains(&a);
                let owner_alive = it.info(map).and_then(|m| it.info(m.owner)).map(|o| it.value_alive(&o)).unwrap_or(false);
                if !by_clean && owner_alive {
                    ev!("!action-early:{}", a);
                }
                // ... and then it runs while the owner is being destroyed, not after the owner's box has been released
                // (unless a `clean()` in progress holds the map alive past its owner: its upgraded pointer is then the last one)
                if !by_clean && it.cleaning.borrow().is_empty() {
                    if let Some(o) = it.info(map).and_then(|m| it.info(m.owner)) {
                        if !o.node.is_null() && !alloc::is_live(o.box_addr) && unsafe { &*o.node }.canary.get() == DEAD {
                            ev!("!action-late:{}", a);
                        }
                    }
                }
            }
            if let Some(a) = info2.aid.get() {
                let mut ar = it.action_runs.borrow_mut();
                let e = ar.entry(a).or_insert(0);
                *e += 1;
                if *e > 1 {
                    ev!("!action-twice:{}", a);
                }
            }
            if tick(&it.f_act) {
                raise_logged();
            }
            it.run_script(script, None, None);
        };
        let map_size = alloc::MAP_BOX_SIZE.load(std::sync::atomic::Ordering::Relaxed);
        // watch allocations of map-box size during this call (nestable: `register` can be re-entered from finalizers)
        let prev = alloc::with_tracker(|t| {
            let prev = (t.watch_size, std::mem::take(&mut t.watched));
            t.watch_size = if map_size == 0 { None } else { Some(map_size) };
            prev
        });
        struct Unwatch(Option<(Option<usize>, Vec<usize>)>, std::rc::Rc<RefCell<Vec<usize>>>);
        impl Drop for Unwatch {
            fn drop(&mut self) {
                let prev = self.0.take();
                let mine = self.1.clone();
                alloc::with_tracker(|t| {
                    *mine.borrow_mut() = std::mem::take(&mut t.watched);
                    if let Some((ws, w)) = prev {
                        t.watch_size = ws;
                        t.watched = w;
                    }
                });
            }
        }
        let mine = std::rc::Rc::new(RefCell::new(Vec::new()));
        let unwatch = Unwatch(prev, mine.clone());
        let cleanable = cleaner.register(action);
        drop(unwatch);
        // `register(&self)` borrows the Cleaner, hence its owner, for the whole call: safe Rust cannot destroy the owner
        // meanwhile. The harness reaches the owner through a raw pointer, so a callback of the collection that
        // `register` starts can release the last `Cc` to it; the crate then stores the new map in a Cleaner that no
        // longer exists. From here on the run is outside what safe code can do: leaks are no longer judged
        // (memory-safety oracles stay on).
        if self.node_ok(node as *const Node).is_err() {
            self.leaky.set(true);
        }
        // `register` returned: the map exists, the action is stored, its side record exists
        let snap = cleaner.verif_map_snapshot().expect("cleaner map must exist after register");
        if !had_map && self.id_of_box(snap.box_addr).is_some() {
            // a nested `register` (from a finalizer of the collection started by this one) created the map;
            // the map allocated by this call was transient: report its allocation and release
            let transient: Vec<usize> = mine.borrow().clone();
            for addr in transient {
                if addr != snap.box_addr && self.id_of_box(addr).is_none() {
                    let id = self.fresh_id();
                    ev!("A{}:{}", id, map_size);
                    if alloc::is_live(addr) {
                        ev!("!transient-map-leaked:{}", id);
                    } else {
                        ev!("X{}", id);
                    }
                }
            }
        }
        let map_id = if !had_map && self.id_of_box(snap.box_addr).is_none() {
            let id = self.fresh_id();
            self.register_box(id, BoxInfo { box_addr: snap.box_addr, kind: Kind::Map, node: std::ptr::null(), owner: owner_id });
            let size = alloc::block_at(snap.box_addr).map(|b| b.size).unwrap_or(0);
            ev!("A{}:{}", id, size);
            id
        } else {
            self.id_of_box(snap.box_addr).unwrap_or(usize::MAX)
        };
        self.note_meta(map_id, &snap);
        let aid = self.next_aid.get();
        self.next_aid.set(aid + 1);
        info.aid.set(Some(aid));
        info.map_id.set(Some(map_id));
        self.actions.borrow_mut().push(info);
        // The table entry was free when `register` started; a `register` nested in it (from a finalizer of the collection
        // that the map allocation started) may have filled it meanwhile. The model's table store forgets what was there
        // (`setK`), so the overwritten `Cleanable` is leaked here too instead of being dropped, and leaks are no longer
        // judged for this run.
        let old = self.k.borrow_mut()[k].replace(cleanable);
        if let Some(old) = old {
            std::mem::forget(old);
            self.leaky.set(true);
        }
        self.k_aids.borrow_mut()[k] = Some(aid);
        Ret::Ok
    }

    #[cfg(feature = "clean")]
    fn op_clean(&self, k: usize) -> Ret {
        // `clean(&self)`: the table entry stays; take a raw pointer so that the table is not borrowed
        // while the action runs
        let p: *const Cleanable = {
            let t = self.k.borrow();
            match t.get(k).and_then(|e| e.as_ref()) {
                Some(c) => c as *const Cleanable,
                None => return Ret::Skip,
            }
        };
        let aid = self.k_aids.borrow().get(k).copied().flatten();
        if let Some(a) = aid {
            self.cleaning.borrow_mut().push(a);
        }
        struct Pop<'a>(&'a Interp, bool);
        impl Drop for Pop<'_> {
            fn drop(&mut self) {
                if self.1 {
                    self.0.cleaning.borrow_mut().pop();
                }
            }
        }
        let _pop = Pop(self, aid.is_some());
        unsafe { &*p }.clean();
        Ret::Ok
    }

    #[cfg(feature = "clean")]
    fn op_cdrop(&self, k: usize) -> Ret {
        let taken = {
            let mut t = self.k.borrow_mut();
            t.get_mut(k).and_then(|e| e.take())
        };
        match taken {
            Some(c) => {
                self.k_aids.borrow_mut()[k] = None;
                drop(c);
                Ret::Ok
            }
            None => Ret::Skip,
        }
    }

    // ---------------------------------------------------------------- top level

    /// Executes one top-level operation under `catch_unwind` and returns the observation line.
    pub fn exec_top(&self, op: &Op) -> String {
        alloc::with_tracker(|t| t.events.clear());
        let ctx = Ctx { selfp: None, wc: None };
        let execs_before = state::executions_count().unwrap_or(0);
        self.explicit_collects.set(0);
        self.alloc_attempts.set(0);
        self.cb_ops_ran.set(false);
        let res = catch_unwind(AssertUnwindSafe(|| self.exec_op(op, &ctx)));
        // C11 / C12 oracle: an explicit collect_cycles() on an idle collector starts exactly one collection
        // (nested requests are no-ops); no other operation but allocation may start one, and at most one
        let execs_after = state::executions_count().unwrap_or(0);
        let delta = execs_after.wrapping_sub(execs_before);
        match op {
            Op::Collect => {
                if delta != 1 {
                    ev!("!execs:collect:{}", delta);
                }
            }
            _ => {
                // C15 oracle: an allocation starts at most one collection; nothing else starts any
                // (explicit requests made by callbacks during this operation are accounted for)
                let bound = self.explicit_collects.get() + self.alloc_attempts.get();
                if delta > bound {
                    ev!("!execs:extra:{}>{}", delta, bound);
                }
            }
        }
        // C07: between top-level operations the collector is idle — no phase flag is left set, whatever panicked
        let flags = hooks::phase_flags().unwrap_or((false, false, false));
        if is_tracing() || self.cb_depth.get() != 0 || flags.0 || flags.1 || flags.2 {
            ev!("!not-idle-after-op:{}{}{}", b01(flags.0), b01(flags.1), b01(flags.2));
        }
        let ret = match res {
            Ok(r) => r.str(),
            Err(_) => {
                self.leaky.set(true);
                self.panicked_ever.set(true);
                "panic".to_string()
            }
        };
        let quiescent_collect = matches!(op, Op::Collect) && res_is_ok(&ret);
        self.observe(ret, quiescent_collect)
    }

    fn observe(&self, ret: String, was_collect: bool) -> String {
        use std::fmt::Write;
        // ---- oracles first (they append `!` events)
        self.oracle_walk();
        self.oracle_counters();
        self.oracle_counts();
        self.oracle_meta();
        self.oracle_actions();
        if was_collect {
            self.oracle_complete();
        }
        let events = alloc::with_tracker(|t| t.events.join(",")).unwrap_or_default();
        let mut out = String::new();
        let _ = write!(out, "{} | ev={} | H=", ret, events);
        {
            let h = self.h.borrow();
            let mut first = true;
            for (k, e) in h.iter().enumerate() {
                if let Some(cc) = e {
                    let p = &**cc as *const Node;
                    let id = unsafe { &*p }.idc.get();
                    if !first {
                        out.push(',');
                    }
                    first = false;
                    let _ = write!(out, "{}:{}:{}:{}:{}", k, id, cc.strong_count(), cc_weak_count(cc), cc_finalized(cc));
                }
            }
        }
        out.push_str(" | W=");
        #[cfg(feature = "weak")]
        {
            let w = self.w.borrow();
            let mut first = true;
            for (k, e) in w.iter().enumerate() {
                if let Some(weak) = e {
                    if !first {
                        out.push(',');
                    }
                    first = false;
                    let _ = write!(out, "{}:{}:{}", k, weak.weak_count(), weak.strong_count());
                }
            }
        }
        let _ = write!(
            out,
            " | st={},{},{},{}",
            state::allocated_bytes().map(|v| v as i64).unwrap_or(-1),
            state::buffered_objects_count().map(|v| v as i64).unwrap_or(-1),
            state::executions_count().map(|v| v as i64).unwrap_or(-1),
            b01(is_tracing())
        );
        out.push_str(" | wb=");
        {
            let reg = self.registry.borrow();
            let mut first = true;
            for (id, b) in reg.iter().enumerate() {
                let Some(b) = b else { continue };
                if !alloc::is_live(b.box_addr) {
                    continue;
                }
                let snap = unsafe { hooks::snapshot_at(b.box_addr) };
                let v = hooks::counter_apply(snap.tracing_word, snap.counter_word, None);
                if !first {
                    out.push(',');
                }
                first = false;
                let tc = if v.is_dropped { "d".to_string() } else { v.tracing_counter.to_string() };
                let fin = if self.feat.fin { b01(!v.needs_finalization) } else { 0 };
                let _ = write!(out, "{}:{}:{}:{}:{}:{}", id, v.counter, tc, v.mark, fin, b01(v.has_allocated_for_metadata));
            }
        }
        out.push_str(";pc=");
        {
            let walk = hooks::buffer_walk(100_000);
            let ids: Vec<String> = walk
                .members
                .iter()
                .map(|m| self.id_of_box(m.box_addr).map(|i| i.to_string()).unwrap_or_else(|| "?".into()))
                .collect();
            out.push_str(&ids.join(","));
        }
        out.push_str(";thr=");
        out.push_str(&threshold());
        out
    }

    /// C01: every object reachable from the program's tables is an intact value in a live box.
    fn oracle_walk(&self) {
        let mut starts: Vec<*const Node> = self.h.borrow().iter().flatten().map(|cc| &**cc as *const Node).collect();
        for v in self.stash.borrow().values() {
            if let Some(cc) = v.first() {
                starts.push(&**cc as *const Node);
            }
        }
        let mut seen: HashSet<usize> = HashSet::new();
        let mut stack = starts;
        while let Some(p) = stack.pop() {
            match self.node_ok(p) {
                Ok(id) => {
                    if !seen.insert(id) {
                        continue;
                    }
                    let n = unsafe { &*p };
                    for s in n.slots.iter().chain(n.uslots.0.iter()) {
                        if let Ok(b) = s.try_borrow() {
                            if let Some(cc) = b.as_ref() {
                                stack.push(&**cc as *const Node);
                            }
                        }
                    }
                }
                Err(id) => {
                    if seen.insert(id) {
                        ev!("!reach-dead:{}", id);
                    }
                }
            }
        }
        // captured pointers of pending actions whose map is reachable are program-reachable too
        for a in self.actions.borrow().iter() {
            if let (Some(cap), Some(map)) = (a.cap.get(), a.map_id.get()) {
                let owner_alive = self.info(map).map(|m| seen.contains(&m.owner)).unwrap_or(false);
                if owner_alive && self.box_live(map) {
                    if let Some(b) = self.info(cap) {
                        if !b.node.is_null() && self.node_ok(b.node).is_err() {
                            ev!("!cap-dead:{}", cap);
                        }
                    }
                }
            }
        }
    }

    /// C11: the introspection counters against the allocator and the buffer walk.
    fn oracle_counters(&self) {
        let mut sum = 0usize;
        for b in self.registry.borrow().iter().flatten() {
            if let Some(blk) = alloc::block_at(b.box_addr) {
                if blk.live {
                    sum += blk.size;
                }
            }
        }
        if let Ok(ab) = state::allocated_bytes() {
            if ab != sum {
                ev!("!bytes:{}vs{}", ab, sum);
            }
        }
        let walk = hooks::buffer_walk(100_000);
        if walk.accessible {
            if walk.cached_size != walk.members.len() {
                ev!("!bufsize:{}vs{}", walk.cached_size, walk.members.len());
            }
            if !walk.links_ok {
                ev!("!buflinks");
            }
            let mut seen = HashSet::new();
            for m in walk.members.iter() {
                let v = hooks::counter_apply(m.tracing_word, m.counter_word, None);
                if v.mark != 1 {
                    ev!("!bufmark:{}", self.id_of_box(m.box_addr).map(|i| i as i64).unwrap_or(-1));
                }
                if !alloc::is_live(m.box_addr) {
                    ev!("!buffreed:{}", self.id_of_box(m.box_addr).map(|i| i as i64).unwrap_or(-1));
                }
                if !seen.insert(m.box_addr) {
                    ev!("!bufdup");
                }
            }
            if state::buffered_objects_count().ok() != Some(walk.cached_size) {
                ev!("!bufcount");
            }
        }
    }

    /// Every `Cc` that exists, as seen by the harness: (target id) per pointer.
    fn all_pointers(&self) -> HashMap<usize, usize> {
        let mut cnt: HashMap<usize, usize> = HashMap::new();
        for cc in self.h.borrow().iter().flatten() {
            *cnt.entry(unsafe { &*(&**cc as *const Node) }.idc.get()).or_insert(0) += 1;
        }
        for (_id, b) in self.registry.borrow().iter().enumerate() {
            let Some(b) = b else { continue };
            if b.kind != Kind::Node || !self.value_alive(b) {
                continue;
            }
            // fields are owned by the value for as long as it has not been dropped (or moved out)
            let n = unsafe { &*b.node };
            for s in n.slots.iter().chain(n.uslots.0.iter()) {
                if let Ok(bw) = s.try_borrow() {
                    if let Some(cc) = bw.as_ref() {
                        *cnt.entry(unsafe { &*(&**cc as *const Node) }.idc.get()).or_insert(0) += 1;
                    }
                }
            }
        }
        // owner → map, pending action → captured
        for (id, b) in self.registry.borrow().iter().enumerate() {
            let Some(b) = b else { continue };
            if b.kind == Kind::Map {
                if let Some(o) = self.info(b.owner) {
                    if self.value_alive(&o) && has_map(unsafe { &*o.node }) {
                        *cnt.entry(id).or_insert(0) += 1;
                    }
                }
            }
        }
        for a in self.actions.borrow().iter() {
            if let Some(cap) = a.cap.get() {
                *cnt.entry(cap).or_insert(0) += 1;
            }
        }
        for (id, v) in self.stash.borrow().iter() {
            *cnt.entry(*id).or_insert(0) += v.len();
        }
        cnt
    }

    /// C10: in a panic-free run, once the value owning a `Cleaner` is gone (dropped by reference counting, reclaimed by the
    /// collector, or moved out and dropped) every action registered on it has run by the time the operation returns.
    #[cfg(feature = "clean")]
    fn oracle_actions(&self) {
        if self.panicked_ever.get() || self.leaky.get() || self.cb_depth.get() != 0 {
            return;
        }
        let runs = self.action_runs.borrow();
        for a in self.actions.borrow().iter() {
            let (Some(aid), Some(map)) = (a.aid.get(), a.map_id.get()) else { continue };
            if runs.get(&aid).copied().unwrap_or(0) != 0 {
                continue;
            }
            let Some(m) = self.info(map) else { continue };
            let Some(o) = self.info(m.owner) else { continue };
            if !self.value_alive(&o) {
                ev!("!action-skipped:{}", aid);
            }
        }
    }
    #[cfg(not(feature = "clean"))]
    fn oracle_actions(&self) {}

    /// C04: `strong_count` equals the number of pointers that exist (too high only after a panic).
    fn oracle_counts(&self) {
        let cnt = self.all_pointers();
        let reg = self.registry.borrow();
        for (id, b) in reg.iter().enumerate() {
            let Some(b) = b else { continue };
            if !alloc::is_live(b.box_addr) {
                continue;
            }
            let snap = unsafe { hooks::snapshot_at(b.box_addr) };
            let v = hooks::counter_apply(snap.tracing_word, snap.counter_word, None);
            let rc = v.counter as usize;
            let expected = cnt.get(&id).copied().unwrap_or(0);
            if rc < expected || (!self.leaky.get() && rc != expected) {
                ev!("!rc:{}:{}vs{}", id, rc, expected);
            }
        }
    }

    /// C09: a side record whose allocation is gone and to which the program holds no `Weak` must have been released.
    #[cfg(feature = "weak")]
    fn oracle_meta(&self) {
        let mut held: HashSet<usize> = HashSet::new();
        let mut note = |w: &Weak<Node>| {
            if let Some((m, _)) = hooks::weak_snapshot(w) {
                held.insert(m);
            }
        };
        for w in self.w.borrow().iter().flatten() {
            note(w);
        }
        for v in self.wstash.borrow().values() {
            for w in v.iter() {
                note(w);
            }
        }
        for b in self.registry.borrow().iter().flatten() {
            if b.kind == Kind::Node && self.value_alive(b) {
                let n = unsafe { &*b.node };
                for s in n.wslots.iter() {
                    if let Ok(bw) = s.try_borrow() {
                        if let Some(w) = bw.as_ref() {
                            note(w);
                        }
                    }
                }
            }
        }
        // cleanables hold a Weak to their map; leaked / half-dropped values may hold more: only assert for plain nodes
        let cleanables = self.k.borrow().iter().flatten().count();
        let leaky = self.leaky.get();
        let reg = self.registry.borrow();
        let metas: Vec<usize> = self.metas.borrow().iter().copied().collect();
        for m in metas {
            let Some(blk) = alloc::block_at(m) else { continue };
            if !blk.live {
                continue;
            }
            if let alloc::Tag::Meta(id) = blk.tag {
                let Some(Some(b)) = reg.get(id) else { continue };
                if b.kind == Kind::Map && cleanables > 0 {
                    continue;
                }
                if !alloc::is_live(b.box_addr) && !held.contains(&m) && !leaky {
                    ev!("!meta-leak:{}", id);
                }
            }
        }
    }
    #[cfg(not(feature = "weak"))]
    fn oracle_meta(&self) {}

    /// C02: after a `collect_cycles()` that ran no finalizer and no destructor, in a panic-free
    /// history, every allocated object is reachable from the tables or pinned through an untraced
    /// field of an unreclaimed object.
    fn oracle_complete(&self) {
        if self.panicked_ever.get() || self.leaky.get() {
            return;
        }
        let quiet = alloc::with_tracker(|t| !t.events.iter().any(|e| e.starts_with('F') || e.starts_with('D') || e.starts_with('K'))).unwrap_or(false);
        if !quiet {
            return;
        }
        let reg = self.registry.borrow();
        // edges between allocated objects: (from, to, traced)
        let mut allowed: HashSet<usize> = HashSet::new();
        let mut stack: Vec<usize> = Vec::new();
        for cc in self.h.borrow().iter().flatten() {
            stack.push(unsafe { &*(&**cc as *const Node) }.idc.get());
        }
        for (id, v) in self.stash.borrow().iter() {
            if !v.is_empty() {
                stack.push(*id);
            }
        }
        // pinned: targets of untraced edges (untraced fields, cleaner → map, action → captured)
        for (id, b) in reg.iter().enumerate() {
            let Some(b) = b else { continue };
            if !alloc::is_live(b.box_addr) {
                continue;
            }
            match b.kind {
                Kind::Node => {
                    if !self.value_alive(b) {
                        continue;
                    }
                    let n = unsafe { &*b.node };
                    for s in n.uslots.0.iter() {
                        if let Ok(bw) = s.try_borrow() {
                            if let Some(cc) = bw.as_ref() {
                                stack.push(unsafe { &*(&**cc as *const Node) }.idc.get());
                            }
                        }
                    }
                }
                Kind::Map => {
                    stack.push(id);
                }
            }
        }
        for a in self.actions.borrow().iter() {
            if let Some(cap) = a.cap.get() {
                stack.push(cap);
            }
        }
        while let Some(id) = stack.pop() {
            if !allowed.insert(id) {
                continue;
            }
            let Some(Some(b)) = reg.get(id) else { continue };
            if b.kind != Kind::Node || !self.value_alive(b) {
                continue;
            }
            let n = unsafe { &*b.node };
            for s in n.slots.iter().chain(n.uslots.0.iter()) {
                if let Ok(bw) = s.try_borrow() {
                    if let Some(cc) = bw.as_ref() {
                        stack.push(unsafe { &*(&**cc as *const Node) }.idc.get());
                    }
                }
            }
        }
        for (id, b) in reg.iter().enumerate() {
            let Some(b) = b else { continue };
            if alloc::is_live(b.box_addr) && !allowed.contains(&id) {
                ev!("!leak:{}", id);
            }
        }
    }

    /// End of program: leak whatever is left so that no callback runs during thread teardown.
    pub fn finish(&self) {
        for e in self.h.borrow_mut().iter_mut() {
            if let Some(cc) = e.take() {
                std::mem::forget(cc);
            }
        }
        for e in self.w.borrow_mut().iter_mut() {
            if let Some(w) = e.take() {
                std::mem::forget(w);
            }
        }
        for e in self.k.borrow_mut().iter_mut() {
            if let Some(c) = e.take() {
                std::mem::forget(c);
            }
        }
        std::mem::forget(std::mem::take(&mut *self.stash.borrow_mut()));
        std::mem::forget(std::mem::take(&mut *self.wstash.borrow_mut()));
    }
}

fn res_is_ok(ret: &str) -> bool {
    ret == "ok"
}

/// Marks the run as leaky if the drop of a moved-out value unwinds.
struct RetOnUnwind;
impl Drop for RetOnUnwind {
    fn drop(&mut self) {}
}

#[cfg(feature = "clean")]
struct CapGuard(Option<Cc<Node>>, Rc<ActionInfo>);
#[cfg(feature = "clean")]
impl Drop for CapGuard {
    fn drop(&mut self) {
        // the captured pointer stops existing when the closure ends
        self.1.cap.set(None);
        let c = self.0.take();
        drop(c);
    }
}

#[cfg(feature = "clean")]
fn new_cleaner() -> Cleaner {
    Cleaner::new()
}
#[cfg(not(feature = "clean"))]
fn new_cleaner() -> Cleaner {
    Cleaner
}

#[cfg(feature = "clean")]
fn has_map(n: &Node) -> bool {
    n.cleaner.as_ref().map(|c| c.verif_map_snapshot().is_some()).unwrap_or(false)
}
#[cfg(not(feature = "clean"))]
fn has_map(_: &Node) -> bool {
    false
}

#[cfg(feature = "weak")]
fn is_dangling(w: &Weak<Node>) -> bool {
    hooks::weak_snapshot(w).is_none()
}

#[cfg(feature = "weak")]
fn cc_weak_count(cc: &Cc<Node>) -> u32 {
    cc.weak_count()
}
#[cfg(not(feature = "weak"))]
fn cc_weak_count(_: &Cc<Node>) -> u32 {
    0
}

#[cfg(feature = "fin")]
fn cc_finalized(cc: &Cc<Node>) -> u8 {
    b01(cc.already_finalized())
}
#[cfg(not(feature = "fin"))]
fn cc_finalized(_: &Cc<Node>) -> u8 {
    0
}

#[cfg(feature = "auto")]
fn threshold() -> String {
    rust_cc::config::config(|c| c.verif_bytes_threshold()).map(|v| v.to_string()).unwrap_or_else(|_| "?".into())
}
#[cfg(not(feature = "auto"))]
fn threshold() -> String {
    "-".into()
}

/// Size of the box of the crate's private `CleanerMap` (0 without the `cleaners` feature).
#[cfg(feature = "clean")]
pub fn probe_map_size() -> usize {
    let before = state::allocated_bytes().unwrap();
    let c = Cleaner::new();
    let cl = c.register(|| {});
    let size = state::allocated_bytes().unwrap() - before;
    std::mem::forget(cl);
    std::mem::forget(c);
    size
}
#[cfg(not(feature = "clean"))]
pub fn probe_map_size() -> usize {
    0
}
