/-! Universe of the container shapes the crate implements `Trace` / `Finalize` for (trace.rs,
weak/mod.rs, cleaners/mod.rs), with the visit order of each impl. Leaves are numbered `Cc`s. -/
namespace Shapes

inductive Shape
  | cc (leaf : Nat)                    -- an owned `Cc`
  | weak | cleaner | cleanable | phantom | prim
  | tuple (l : List Shape)             -- tuples (1..12), arrays, slices and `Vec` all forward in order
  | arr (l : List Shape)
  | slice (l : List Shape)
  | vec (l : List Shape)
  | box (s : Shape)
  | some (s : Shape)
  | none
  | ok (s : Shape)
  | err (s : Shape)
  | cell (borrowed : Bool) (s : Shape) -- `RefCell`, `borrowed` = mutably borrowed right now
  | cellShared (s : Shape)             -- `RefCell` with a shared borrow (`Ref`) alive right now
  | md (s : Shape)                     -- `ManuallyDrop`
  | aus (s : Shape)                    -- `AssertUnwindSafe`
  deriving Repr, Inhabited

mutual
/-- What one `trace` call reports (leaf numbers, in call order). -/
def visit : Shape → List Nat
  | .cc i => [i]
  | .weak | .cleaner | .cleanable | .phantom | .prim | .none => []
  | .tuple l | .arr l | .slice l | .vec l => visitL l
  | .box s | .some s | .ok s | .err s | .md s | .aus s => visit s
  | .cell b s => if b then [] else visit s     -- `try_borrow_mut` fails on a borrowed cell
  | .cellShared _ => []                        -- … also on a cell with a shared borrow
def visitL : List Shape → List Nat
  | [] => []
  | s :: r => visit s ++ visitL r
end

mutual
/-- Every `Cc` the value owns (the specification), in field order. -/
def owned : Shape → List Nat
  | .cc i => [i]
  | .weak | .cleaner | .cleanable | .phantom | .prim | .none => []
  | .tuple l | .arr l | .slice l | .vec l => ownedL l
  | .box s | .some s | .ok s | .err s | .md s | .aus s | .cell _ s | .cellShared s => owned s
def ownedL : List Shape → List Nat
  | [] => []
  | s :: r => owned s ++ ownedL r
end

mutual
/-- No `RefCell` inside is currently borrowed. -/
def unborrowed : Shape → Bool
  | .cell b s => !b && unborrowed s
  | .cellShared _ => false
  | .tuple l | .arr l | .slice l | .vec l => unborrowedL l
  | .box s | .some s | .ok s | .err s | .md s | .aus s => unborrowed s
  | _ => true
def unborrowedL : List Shape → Bool
  | [] => true
  | s :: r => unborrowed s && unborrowedL r
end

mutual
/-- What one `finalize` call on the container forwards to: the same traversal, but `Finalize for RefCell` only needs a shared
borrow (`try_borrow`), so only a *mutably* borrowed cell is skipped. -/
def finVisit : Shape → List Nat
  | .cc i => [i]
  | .weak | .cleaner | .cleanable | .phantom | .prim | .none => []
  | .tuple l | .arr l | .slice l | .vec l => finVisitL l
  | .box s | .some s | .ok s | .err s | .md s | .aus s => finVisit s
  | .cell b s => if b then [] else finVisit s
  | .cellShared s => finVisit s
def finVisitL : List Shape → List Nat
  | [] => []
  | s :: r => finVisit s ++ finVisitL r
end

mutual
/-- No `RefCell` inside is mutably borrowed. -/
def notMutBorrowed : Shape → Bool
  | .cell b s => !b && notMutBorrowed s
  | .cellShared s => notMutBorrowed s
  | .tuple l | .arr l | .slice l | .vec l => notMutBorrowedL l
  | .box s | .some s | .ok s | .err s | .md s | .aus s => notMutBorrowed s
  | _ => true
def notMutBorrowedL : List Shape → Bool
  | [] => true
  | s :: r => notMutBorrowed s && notMutBorrowedL r
end

end Shapes
