#!/usr/bin/env python3
"""Seeded generator of line-protocol programs for the rust-cc correspondence check.

Every random choice derives from one PRNG (random.Random(seed)), so a disagreement replays exactly.
Programs are "mostly valid": the generator tracks which table entries are probably occupied, but an
operand that names an empty entry just makes the operation `skip` on both sides, so any
subsequence of a program is a program (shrinking = deleting lines).
"""
import random
import sys

PCTS = ["3fb999999999999a", "0", "3ff0000000000000", "3fe0000000000000", "3fd0000000000000",
        "3fc0000000000000", "3fe8000000000000", "3f50624dd2f1a9fc", "3fefffffffffffff", "3cb0000000000000"]


class Profile:
    def __init__(self, name, feat, weights=None, fault_p=0.0, nprog=100, oplen=(8, 40), scripts_p=0.7,
                 kinds=("trace", "fin", "drop", "action", "body"), two_faults_p=0.0, cfg_p=0.3,
                 auto_p=0.5, teardown_p=0.8, shape_p=0.7):
        self.name = name
        self.feat = feat  # dict fin weak clean auto
        self.weights = weights or {}
        self.fault_p = fault_p
        self.nprog = nprog
        self.oplen = oplen
        self.scripts_p = scripts_p
        self.kinds = kinds
        self.two_faults_p = two_faults_p
        self.cfg_p = cfg_p
        self.auto_p = auto_p
        self.teardown_p = teardown_p
        self.shape_p = shape_p


BASE_W = {
    "new": 10, "newcyc": 3, "clone": 8, "drop": 12, "setf": 14, "clrf": 5, "takef": 3, "getf": 5,
    "movef": 4, "markalive": 2, "finagain": 2, "unwrap": 3, "down": 5, "up": 5, "wclone": 2, "wdrop": 3, "wnew": 1,
    "setw": 3, "clrw": 1, "reg": 4, "clean": 3, "cdrop": 2, "collect": 8, "cfg": 2, "setu": 4, "nop": 0,
}


class Gen:
    def __init__(self, rng, prof, sizes, consts, nh=6, nw=4, nk=4):
        self.r = rng
        self.p = prof
        self.sizes = sizes
        self.consts = consts
        self.nh, self.nw, self.nk = nh, nw, nk

    def pick(self, table):
        items = [(k, v) for k, v in table.items() if v > 0]
        tot = sum(v for _, v in items)
        x = self.r.uniform(0, tot)
        for k, v in items:
            x -= v
            if x <= 0:
                return k
        return items[-1][0]

    # ----- operands
    def href(self, in_cb, kind):
        """A place holding a Cc."""
        r = self.r
        if in_cb and kind == "fin" and r.random() < 0.5:
            return r.choice(["s.f%d" % r.randrange(self.ns or 1), "s.u%d" % r.randrange(self.nu or 1)])
        return "h%d" % r.randrange(self.nh)

    def nref(self, in_cb, kind):
        r = self.r
        if in_cb and kind in ("fin",) and r.random() < 0.5:
            return "s" if r.random() < 0.6 else self.href(in_cb, kind)
        return "h%d" % r.randrange(self.nh)

    def wsel(self, in_cb, kind):
        r = self.r
        if kind == "body" and r.random() < 0.7:
            return "wc"
        if in_cb and kind in ("fin", "drop") and self.nwf and r.random() < 0.5:
            return "s.w%d" % r.randrange(self.nwf)
        return "w%d" % r.randrange(self.nw)

    def slot(self):
        r = self.r
        if self.nu and r.random() < 0.25:
            return "u%d" % r.randrange(self.nu)
        return "f%d" % r.randrange(max(self.ns, 1))

    def spec(self, max_script):
        r = self.r
        f = self.p.feat
        if self.fixed_shape:
            ns, nu, nwf = self.ns, self.nu, self.nwf
        else:
            ns, nu, nwf = r.randrange(0, 4), r.randrange(0, 2), r.randrange(0, 2)
        cl = 1 if (f["clean"] and r.random() < 0.4) else 0
        fin = r.randrange(1, max_script + 1) if (max_script >= 1 and r.random() < 0.5) else 0
        drp = r.randrange(1, max_script + 1) if (max_script >= 1 and r.random() < 0.3) else 0
        # scripts are typed by their position: see gen_scripts
        fin = self.script_of("fin", fin, max_script)
        drp = self.script_of("drop", drp, max_script)
        return "%d %d %d %d %d %d" % (ns, nu, nwf if f["weak"] else 0, cl, fin, drp)

    def script_of(self, kind, hint, max_script):
        if hint == 0:
            return 0
        cands = [i for i in range(1, max_script + 1) if self.script_kind.get(i) == kind]
        return self.r.choice(cands) if cands else 0

    # ----- one operation
    def op(self, in_cb=False, kind=None, max_script=None):
        r = self.r
        f = self.p.feat
        if max_script is None:
            max_script = self.nscripts
        w = dict(BASE_W)
        w.update(self.p.weights)
        if not f["weak"]:
            for k in ("newcyc", "down", "up", "wclone", "wdrop", "wnew", "setw", "clrw"):
                w[k] = 0
        if not f["clean"]:
            for k in ("reg", "clean", "cdrop"):
                w[k] = 0
        if not f["auto"]:
            w["cfg"] = 0
        if not f["fin"]:
            w["finagain"] = 0
        if in_cb:
            if kind == "drop":
                # Drop impls must not touch Cc fields of the value: only table entries, weaks, allocation, collection
                for k in ("setf", "movef", "clrf", "takef", "getf", "setu", "setw", "clrw", "reg", "markalive"):
                    w[k] = 0
                w["clone"] = 2
                w["drop"] = 4
                w["up"] = 10 if f["weak"] else 0
                w["collect"] = 6
                w["new"] = 6
            if kind in ("action",):
                for k in ("reg",):
                    w[k] = 0
                w["clean"] = 6 if f["clean"] else 0
                w["up"] = 8 if f["weak"] else 0
            if kind == "body":
                w["wclone"] = 10
                w["up"] = 8
                w["newcyc"] = 0
            w["cfg"] = 0
            w["newcyc"] = min(w["newcyc"], 1) if kind != "body" else 0
            for kk, vv in getattr(self.p, "cb_weights", {}).items():
                if w.get(kk, 0) > 0 or kk in ("collect", "new", "unwrap", "finagain"):
                    w[kk] = vv
            if not f["fin"]:
                w["finagain"] = 0
        k = self.pick(w)
        if k == "new":
            return "new h%d %s" % (r.randrange(self.nh), self.spec(max_script))
        if k == "newcyc":
            body = self.script_of("body", 1, max_script)
            selfw = str(r.randrange(self.nwf)) if (self.nwf and r.random() < 0.6) else "-"
            return "newcyc h%d %s %d %s" % (r.randrange(self.nh), self.spec(max_script), body, selfw)
        if k == "clone":
            return "clone %s h%d" % (self.href(in_cb, kind), r.randrange(self.nh))
        if k == "drop":
            return "drop h%d" % r.randrange(self.nh)
        if k == "setf":
            return "setf %s %s %s" % (self.nref(in_cb, kind), self.slot(), self.href(in_cb, kind))
        if k == "setu":
            return "setf %s u%d %s" % (self.nref(in_cb, kind), r.randrange(max(self.nu, 1)), self.href(in_cb, kind))
        if k == "movef":
            return "movef %s %s h%d" % (self.nref(in_cb, kind), self.slot(), r.randrange(self.nh))
        if k == "clrf":
            return "clrf %s %s" % (self.nref(in_cb, kind), self.slot())
        if k == "takef":
            return "takef %s %s h%d" % (self.nref(in_cb, kind), self.slot(), r.randrange(self.nh))
        if k == "getf":
            return "getf %s %s h%d" % (self.nref(in_cb, kind), self.slot(), r.randrange(self.nh))
        if k == "markalive":
            return "markalive %s" % self.href(in_cb, kind)
        if k == "finagain":
            return "finagain h%d" % r.randrange(self.nh)
        if k == "unwrap":
            return "unwrap h%d" % r.randrange(self.nh)
        if k == "down":
            return "down %s w%d" % (self.href(in_cb, kind), r.randrange(self.nw))
        if k == "up":
            return "up %s h%d" % (self.wsel(in_cb, kind), r.randrange(self.nh))
        if k == "wclone":
            return "wclone %s w%d" % (self.wsel(in_cb, kind), r.randrange(self.nw))
        if k == "wdrop":
            return "wdrop w%d" % r.randrange(self.nw)
        if k == "wnew":
            return "wnew w%d" % r.randrange(self.nw)
        if k == "setw":
            return "setw %s w%d %s" % (self.nref(in_cb, kind), r.randrange(max(self.nwf, 1)), self.wsel(in_cb, kind))
        if k == "clrw":
            return "clrw %s w%d" % (self.nref(in_cb, kind), r.randrange(max(self.nwf, 1)))
        if k == "reg":
            sc = self.script_of("action", 1, max_script)
            cap = ("h%d" % r.randrange(self.nh)) if r.random() < 0.4 else "-"
            return "reg %s %d c%d %s" % (self.nref(in_cb, kind), sc, r.randrange(self.nk), cap)
        if k == "clean":
            return "clean c%d" % r.randrange(self.nk)
        if k == "cdrop":
            return "cdrop c%d" % r.randrange(self.nk)
        if k == "collect":
            return "collect"
        if k == "cfg":
            c = r.random()
            if c < 0.3:
                return "cfg auto %d" % r.randrange(2)
            if c < 0.6:
                return "cfg buf %s" % r.choice(["none", "1", "2", "3", "5"])
            return "cfg pct %s" % r.choice(PCTS)
        return "nop"

    def gen_scripts(self):
        """Script i may only create objects whose callbacks are scripts < i (termination)."""
        r = self.r
        f = self.p.feat
        self.script_kind = {}
        self.scripts = {}
        if r.random() > self.p.scripts_p:
            self.nscripts = 0
            return
        n = r.randrange(1, 7)
        kinds = ["fin"] * (3 if f["fin"] else 0) + ["drop"] * 2 + (["action"] * 2 if f["clean"] else []) + (["body"] if f["weak"] else [])
        self.nscripts = n
        for i in range(1, n + 1):
            kind = r.choice(kinds)
            self.script_kind[i] = kind
            ln = r.randrange(0, 5)
            ops = []
            for _ in range(ln):
                if r.random() < getattr(self.p, "panic_p", 0.04):
                    ops.append("panic")
                else:
                    ops.append(self.op(in_cb=True, kind=kind, max_script=i - 1))
            self.scripts[i] = ops

    def scenario(self, name):
        """Structured scenario: a garbage set (ring plus chords, optionally with an acyclic tail and an untraced
        owner) whose members carry callbacks that upgrade weak pointers into the set, resurrect neighbours, allocate,
        collect or panic; weak pointers / cleanables to members are kept by the program; every handle is dropped in a random
        order, then collections run, then what the callbacks stored is released and collected again."""
        r = self.r
        f = self.p.feat
        n = r.randrange(2, 5)
        self.fixed_shape = True
        self.ns, self.nu, self.nwf = r.randrange(1, 3), r.randrange(0, 2), (r.randrange(0, 2) if f["weak"] else 0)
        keep = [n, n + 1] if self.nh >= n + 2 else [self.nh - 1]
        scripts = {}
        kinds = {}

        def cb_ops(kind):
            ops = []
            for _ in range(r.randrange(1, 4)):
                c = r.random()
                k = r.choice(keep)
                if f["weak"] and c < 0.45:
                    ops.append("up %s h%d" % (r.choice(["w%d" % r.randrange(self.nw)] + (["s.w0"] if self.nwf and kind != "action" else [])), k))
                elif c < 0.6 and kind == "fin":
                    ops.append(r.choice(["getf s f0 h%d" % k, "clone s.f0 h%d" % k, "clrf s f0", "takef s f0 h%d" % k, "movef s f0 h%d" % k,
                                         "movef s.f0 f0 h%d" % k]))
                elif c < 0.7:
                    ops.append("collect")
                elif c < 0.78:
                    ops.append("new h%d %d %d %d 0 0 0" % (k, self.ns, self.nu, self.nwf))
                elif c < 0.8 and f["weak"]:
                    ops.append("newcyc h%d %d %d %d 0 0 0 0 -" % (k, self.ns, self.nu, self.nwf))
                elif c < 0.85 and f["clean"]:
                    ops.append("clean c%d" % r.randrange(self.nk))
                elif c < 0.9:
                    ops.append("drop h%d" % k)
                elif c < 0.93 and getattr(self.p, "panic_p", 0.04) > 0:
                    ops.append("panic")
                else:
                    ops.append("unwrap h%d" % k if r.random() < 0.5 else "clone h%d h%d" % (k, r.choice(keep)))
            return ops
        sid = 0
        for kind in (["fin"] if f["fin"] else []) + ["drop"] + (["action"] if f["clean"] else []):
            for _ in range(r.randrange(1, 3)):
                sid += 1
                scripts[sid] = cb_ops(kind)
                kinds[sid] = kind
        self.scripts, self.script_kind, self.nscripts = scripts, kinds, sid
        lines = ["program %s" % name, "consts %s" % self.consts,
                 "feat fin=%d weak=%d clean=%d auto=%d" % (f["fin"], f["weak"], f["clean"], f["auto"]),
                 "sizes node=%d map=%d" % (self.sizes["node"], self.sizes["map"]), "tables %d %d %d" % (self.nh, self.nw, self.nk)]
        for i in sorted(scripts):
            lines.append("script %d %s" % (i, " ; ".join(scripts[i])))
        lines.append("begin")
        ops = []
        if f["auto"] and r.random() < 0.6:
            ops.append("cfg auto 0")
        for k in range(n):
            fin = self.script_of("fin", 1, sid) if r.random() < 0.6 else 0
            drp = self.script_of("drop", 1, sid) if r.random() < 0.7 else 0
            cl = 1 if (f["clean"] and r.random() < 0.5) else 0
            ops.append("new h%d %d %d %d %d %d %d" % (k, self.ns, self.nu, self.nwf, cl, fin, drp))
        for k in range(n):
            ops.append("setf h%d f0 h%d" % (k, (k + 1) % n))
        for _ in range(r.randrange(0, n)):
            ops.append("setf h%d %s h%d" % (r.randrange(n), self.slot(), r.randrange(n)))
        if f["weak"]:
            for j in range(min(self.nw, n)):
                if r.random() < 0.8:
                    ops.append("down h%d w%d" % (r.randrange(n), j))
            if self.nwf:
                for k in range(n):
                    if r.random() < 0.6:
                        ops.append("setw h%d w0 w%d" % (k, r.randrange(self.nw)))
        if f["clean"]:
            for j in range(self.nk):
                if r.random() < 0.6:
                    sc = self.script_of("action", 1, sid)
                    ops.append("reg h%d %d c%d %s" % (r.randrange(n), sc, j, "-" if r.random() < 0.7 else "h%d" % r.randrange(n)))
        if r.random() < 0.3:
            # a live object owning a member through an untraced field pins the set
            ops.append("new h%d %d 1 0 0 0 0" % (keep[0], self.ns))
            ops.append("setf h%d u0 h%d" % (keep[0], r.randrange(n)))
        if r.random() < self.p.fault_p:
            kind = r.choice(self.p.kinds)
            ops.append("fault trace %d %d" % (r.randrange(1, 2 * n + 1), r.randrange(0, 3)) if kind == "trace" else "fault %s %d" % (kind, r.randrange(1, n + 1)))
        order = list(range(n))
        r.shuffle(order)
        for k in order:
            ops.append("drop h%d" % k)
            if r.random() < 0.15:
                ops.append("collect")
        for _ in range(r.randrange(1, 4)):
            ops.append("collect")
        for _ in range(r.randrange(0, 6)):
            ops.append(self.op())
        for k in range(self.nh):
            if r.random() < 0.8:
                ops.append("drop h%d" % k)
        if f["clean"]:
            for j in range(self.nk):
                if r.random() < 0.4:
                    ops.append(r.choice(["clean c%d", "cdrop c%d"]) % j)
        for _ in range(r.randrange(1, 4)):
            ops.append("collect")
        return lines + ops + ["end"]

    def fin_chain(self, name):
        """A chain of self-cyclic objects, each owning the next through an untraced field and releasing it in its
        finalizer: every collection pass frees one link and makes the next one garbage, so long chains exhaust the
        pass cap of one collection and leave work buffered for the next (explicit or automatic) one."""
        r = self.r
        f = self.p.feat
        self.fixed_shape = True
        self.ns, self.nu, self.nwf = 1, 1, 0
        n = r.choice([2, 3, 5, 9, 10, 11, 12, 14, 23])
        self.scripts = {1: ["clrf s u0"], 2: ["clrf s u0", "new h5 1 1 0 0 0 0"]}
        self.script_kind = {1: "fin", 2: "fin"}
        self.nscripts = 2
        lines = ["program %s" % name, "consts %s" % self.consts,
                 "feat fin=%d weak=%d clean=%d auto=%d" % (f["fin"], f["weak"], f["clean"], f["auto"]),
                 "sizes node=%d map=%d" % (self.sizes["node"], self.sizes["map"]), "tables %d %d %d" % (self.nh, self.nw, self.nk),
                 "script 1 clrf s u0", "script 2 clrf s u0 ; new h5 1 1 0 0 0 0", "begin"]
        ops = []
        if f["auto"]:
            ops.append("cfg auto %d" % (0 if r.random() < 0.3 else 1))
            if r.random() < 0.7:
                ops.append("cfg buf %d" % r.randrange(1, 4))
        fin = r.choice([1, 1, 2]) if f["fin"] else 0
        # build the chain backwards with two table entries: h0 always names the current head
        ops.append("new h0 1 1 0 0 %d 0" % fin)
        ops.append("setf h0 f0 h0")
        for i in range(n - 1):
            ops.append("new h1 1 1 0 0 %d 0" % fin)
            ops.append("setf h1 f0 h1")
            ops.append("movef h1 u0 h0")
            ops.append("takef h1 u0 h0" if False else "clone h1 h0")
            ops.append("drop h1")
        ops.append("drop h0")
        tail = []
        for _ in range(r.randrange(1, 4)):
            tail.append(r.choice(["collect", "new h2 1 1 0 0 0 0", "new h3 1 1 0 0 0 0", "drop h2", "drop h3", "collect"]))
        ops += tail
        for _ in range(r.randrange(2, 6)):
            ops.append("collect")
        return lines + ops + ["drop h2", "drop h3", "drop h5", "collect", "collect", "end"]

    def directed(self, name):
        """Directed scenarios: small hand-designed templates (randomly parametrised) for interleavings that random
        programs reach too rarely: a finalizer resurrecting its own object through its own `Weak` when the last
        pointer is dropped outside a collection; a finalizer run by the collector dropping the last handle of an
        unrelated live cycle; allocations from callbacks while the buffered-object threshold is exceeded; side
        records whose last `Weak` is gone before `try_unwrap` / the last `Cc`; nested collections from callbacks of
        plain drops followed by allocations and `finalize_again`; mixed finalized / unfinalized garbage sets."""
        r = self.r
        f = self.p.feat
        self.fixed_shape = True
        self.ns, self.nu, self.nwf = 2, 1, (1 if f["weak"] else 0)
        sp = "%d %d %d" % (self.ns, self.nu, self.nwf)
        scripts, kinds, ops = {}, {}, []
        cands = ["mixed", "nestedfin", "tailcycle"]
        if f["fin"]:
            cands += ["findrop", "bufthr"]
        if f["weak"]:
            cands += ["metagone", "metagone", "weakpoke"]
        if f["weak"] and f["fin"]:
            cands += ["selfres", "selfres", "downroot", "helperfin"]
        t = r.choice(cands)
        if f["auto"] and t != "bufthr" and r.random() < 0.7:
            ops.append("cfg auto 0")
        if t == "selfres":
            # fin script: upgrade own weak, store the pointer in the object's own subgraph
            child = r.random() < 0.5
            store = r.choice(["movef s f0 h5", "setf s f0 h5 ; drop h5", "movef s f1 h5"]) if not child else \
                r.choice(["movef s.f0 f0 h5", "setf s.f0 f1 h5 ; drop h5"])
            scripts[1] = ["up s.w0 h5"] + store.split(" ; ")
            kinds[1] = "fin"
            if r.random() < 0.5:
                ops += ["newcyc h0 %s 0 1 0 0 0" % sp]
            else:
                ops += ["new h0 %s 0 1 0" % sp, "down h0 w0", "setw h0 w0 w0"] + (["wdrop w0"] if r.random() < 0.5 else [])
            if child:
                ops += ["new h1 %s 0 0 0" % sp, "movef h0 f0 h1"]
            if r.random() < 0.4:
                ops += ["clone h0 h2", "drop h2"]          # buffered before
            if r.random() < 0.3:
                ops += ["collect"]
            ops += ["drop h0"] + ["collect"] * r.randrange(1, 4)
        elif t == "findrop":
            # the collector runs a finalizer that drops the last handle of a live cycle
            scripts[1] = r.choice([["drop h3"], ["drop h3", "drop h4"], ["clone h3 h5", "drop h3", "drop h5"]])
            kinds[1] = "fin"
            ops += ["new h0 %s 0 1 0" % sp, "new h1 %s 0 %d 0" % (sp, r.randrange(2)), "setf h0 f0 h1", "setf h1 f0 h0"]
            ops += ["new h3 %s 0 0 0" % sp, "new h4 %s 0 0 0" % sp, "setf h3 f0 h4", "setf h4 f0 h3", "drop h4"]
            if r.random() < 0.5:
                ops += ["collect"]
            ops += ["drop h0", "drop h1"] + ["collect"] * r.randrange(1, 4)
        elif t == "bufthr":
            # callbacks buffer live objects and allocate while the buffered-object threshold is exceeded
            n = r.randrange(1, 3)
            scripts[1] = sum((["clone h%d h5" % k, "drop h5"] for k in (2, 3, 4)[: n + 1]), []) + ["new h5 %s 0 0 0" % sp] + \
                (["collect"] if r.random() < 0.3 else [])
            kinds[1] = "fin"
            scripts[2] = list(scripts[1])
            kinds[2] = "drop"
            if f["auto"]:
                ops += ["cfg auto 1", "cfg buf %d" % n, "cfg pct 0"]
            ops += ["new h2 %s 0 0 0" % sp, "new h3 %s 0 0 0" % sp, "new h4 %s 0 0 0" % sp]
            ops += ["clone h2 h5", "drop h5", "collect"]     # raises the byte threshold above what is allocated
            which = r.randrange(3)
            ops += ["new h0 %s 0 %d %d" % (sp, 1 if which != 1 else 0, 2 if which != 0 else 0), "new h1 %s 0 0 0" % sp,
                    "setf h0 f0 h1", "setf h1 f0 h0"]
            if r.random() < 0.5:
                ops += ["drop h1", "drop h0", "collect"]
            else:
                ops += ["drop h1", "clrf h0 f0", "drop h0"]   # plain last-owner drop
            ops += ["collect", "drop h5", "collect"]
        elif t == "metagone":
            # side record exists, every Weak is gone: try_unwrap / last drop / collection must still release correctly
            ops += ["new h0 %s 0 0 0" % sp, "down h0 w0"]
            if r.random() < 0.5:
                ops += ["wclone w0 w1", "wdrop w1"]
            ops += ["wdrop w0"]
            c = r.random()
            if c < 0.4:
                ops += ["unwrap h0"]
            elif c < 0.6:
                ops += ["clone h0 h1", "drop h1", "unwrap h0"]
            elif c < 0.8:
                ops += ["setf h0 f0 h0", "drop h0", "collect"]
            else:
                ops += ["drop h0"]
            ops += ["new h2 %s 0 0 0" % sp, "down h2 w2", "unwrap h2", "up w2 h3", "wdrop w2", "collect"]
        elif t == "tailcycle":
            # a garbage cycle G holds the last outside pointer to another cycle L <-> M through something tracing does not
            # follow (an untraced field, an acyclic object behind one, a pointer captured by a cleaning action): when the
            # collector drops G, the drop glue's `Cc::drop` must buffer L, or L <-> M is never looked at again
            ops += ["new h0 %s 0 0 0" % sp, "new h1 %s 0 0 0" % sp, "new h2 %s 0 0 0" % sp, "setf h1 f0 h2", "setf h2 f0 h1"]
            via = r.choice(["u", "tail", "cap"] if f["clean"] else ["u", "tail"])
            if via == "u":
                ops += ["setf h0 u0 h1"]
            elif via == "tail":
                ops += ["new h3 %s 0 0 0" % sp, "setf h3 %s h1" % r.choice(["f0", "u0"]), "setf h0 u0 h3", "drop h3"]
            else:
                scripts[1] = []
                kinds[1] = "action"
                ops[ops.index("new h0 %s 0 0 0" % sp)] = "new h0 %s 1 0 0" % sp
                ops += ["reg h0 1 c0 h1"] + (["cdrop c0"] if r.random() < 0.5 else [])
            if r.random() < 0.5:
                ops += ["new h4 %s 0 0 0" % sp, "setf h0 f0 h4", "setf h4 f0 h0", "drop h4"]
            else:
                ops += ["setf h0 f0 h0"]
            order = ["drop h1", "drop h2"]
            r.shuffle(order)
            ops += order
            if r.random() < 0.4:
                ops += ["collect"]
            ops += ["drop h0"] + ["collect"] * r.randrange(2, 4)
        elif t == "weakpoke":
            # a garbage ring whose only buffered member is then only touched through `Weak`s (clone, failed upgrade, counts, drop):
            # nothing a `Weak` does may take it out of the buffer, the next collection reclaims the whole ring
            ops += ["new h0 %s 0 0 0" % sp, "new h1 %s 0 0 0" % sp, "setf h1 f0 h0", "movef h0 f0 h1", "down h0 w0"]
            if r.random() < 0.4:
                ops += ["collect"]
            ops += ["drop h0"]
            for _ in range(r.randrange(1, 5)):
                ops.append(r.choice(["wclone w0 w2", "wclone w0 w3", "wdrop w2", "wdrop w3", "wclone w2 w3", "wclone w0 w1", "wdrop w1"]))
            if r.random() < 0.3:
                ops += ["up w0 h4", "drop h4"]
            ops += ["collect"] * r.randrange(2, 4)
        elif t == "helperfin":
            # the members of a garbage cycle each own (through an untraced field) a helper whose finalizer upgrades `Weak`s to
            # the members: the helpers are released by the members' drop glue, i.e. inside the collector's destructor pass
            scripts[1] = r.choice([["up w0 h4", "up w1 h5"], ["up w1 h5", "up w0 h4"], ["up w0 h4", "drop h4", "up w1 h5"]])
            kinds[1] = "fin"
            ops += ["new h0 %s 0 0 0" % sp, "new h1 %s 0 0 0" % sp, "setf h0 f0 h1", "setf h1 f0 h0"]
            ops += ["new h2 %s 0 1 0" % sp, "movef h0 u0 h2", "new h3 %s 0 1 0" % sp, "movef h1 u0 h3"]
            ops += ["down h0 w0", "down h1 w1"]
            order = ["drop h0", "drop h1"]
            r.shuffle(order)
            ops += order + ["collect"] + ["drop h4", "drop h5", "collect"]
        elif t == "downroot":
            # an object that was downgraded once is owned (traced) by a buffered live owner: collections must keep it
            scripts[1] = []
            kinds[1] = "fin"
            fin = r.randrange(2)
            ops += ["new h0 %s 0 %d 0" % (sp, fin), "new h1 %s 0 %d 0" % (sp, fin), "down h1 w0"]
            if r.random() < 0.5:
                ops += ["wdrop w0"]
            ops += ["setf h0 f0 h1", "drop h1", "clone h0 h2", "drop h2", "collect", "collect", "getf h0 f0 h3", "up w0 h4", "collect"]
            ops += ["clone h0 h2", "drop h2", "collect", "drop h3", "drop h4", "collect", "getf h0 f0 h3"]
        elif t == "nestedfin":
            # a finalizer / destructor run by a plain drop collects, then allocates / re-arms / unwraps
            body = ["collect"] + r.sample(["new h5 %s 0 1 0" % sp, "finagain h2", "unwrap h2", "new h4 %s 0 0 0" % sp, "collect"], 3)
            scripts[1] = body
            kinds[1] = "fin" if f["fin"] else "drop"
            scripts[2] = []
            kinds[2] = "fin"
            ops += ["new h2 %s 0 0 0" % sp]
            ops += ["new h0 %s 0 %d %d" % (sp, 1 if f["fin"] else 0, 0 if f["fin"] else 1)]
            if r.random() < 0.5:
                ops += ["new h1 %s 0 0 0" % sp, "setf h1 f0 h1", "drop h1"]       # garbage for the nested collection
            ops += ["drop h0", "drop h5", "collect", "drop h4", "collect", "collect"]
        else:  # mixed: garbage sets mixing finalized and never-finalized members
            scripts[1] = r.choice([[], ["new h5 %s 0 0 0" % sp], ["clone s.f0 h5"], ["getf s f0 h5"]])
            kinds[1] = "fin"
            scripts[2] = ["new h4 %s 0 0 0" % sp, "setf h4 f0 h4"]
            kinds[2] = "fin"
            ops += ["new h0 %s 0 %d 0" % (sp, 1 if f["fin"] else 0), "new h1 %s 0 0 0" % sp, "setf h0 f0 h1", "setf h1 f0 h0"]
            ops += ["drop h0", "drop h1", "collect", "drop h5", "collect"]
            # an object born in a finalizer joins a fresh cycle
            ops += ["new h2 %s 0 %d 0" % (sp, 2 if f["fin"] else 0), "setf h2 f0 h2", "drop h2", "collect"]
            ops += ["new h3 %s 0 %d 0" % (sp, 1 if f["fin"] else 0), "setf h3 f0 h4", "setf h4 f1 h3"]
            order = ["drop h3", "drop h4"]
            r.shuffle(order)
            ops += order + ["collect"] * r.randrange(1, 4)
        # random tail: a few ordinary operations, then release everything
        self.scripts, self.script_kind, self.nscripts = scripts, kinds, len(scripts)
        for _ in range(r.randrange(0, 4)):
            ops.append(self.op())
        for k in range(self.nh):
            if r.random() < 0.85:
                ops.append("drop h%d" % k)
        ops += ["collect"] * r.randrange(1, 3)
        self.scripts, self.script_kind, self.nscripts = scripts, kinds, len(scripts)
        lines = ["program %s" % name, "consts %s" % self.consts,
                 "feat fin=%d weak=%d clean=%d auto=%d" % (f["fin"], f["weak"], f["clean"], f["auto"]),
                 "sizes node=%d map=%d" % (self.sizes["node"], self.sizes["map"]), "tables %d %d %d" % (self.nh, self.nw, self.nk)]
        for i in sorted(scripts):
            lines.append("script %d %s" % (i, " ; ".join(scripts[i]) if scripts[i] else "nop"))
        return lines + ["begin"] + ops + ["end"]

    FORBIDDEN_IN_DROP = ("setf", "movef", "clrf", "takef", "getf", "markalive", "reg", "setw", "clrw")

    def program(self, name):
        """A program whose destructor scripts obey the `Trace` contract (a `Drop` impl must not touch the `Cc` fields
        of its value): whatever the generators above produced, a `new` that names a script using such operations
        as its destructor loses that destructor."""
        lines = self._program(name)
        bad = set()
        for l in lines:
            if l.startswith("script "):
                t = l.split(" ", 2)
                body = t[2] if len(t) > 2 else ""
                for op in body.split(" ; "):
                    w = op.split()
                    if w and (w[0] in self.FORBIDDEN_IN_DROP or any(x.startswith("s.f") or x.startswith("s.u") or x == "s" for x in w[1:])):
                        bad.add(t[1])
        if not bad:
            return lines

        def fix(op):
            w = op.split()
            if w and w[0] == "new" and len(w) == 8 and w[7] in bad:
                w[7] = "0"
            elif w and w[0] == "newcyc" and len(w) == 10 and w[7] in bad:
                w[7] = "0"
            return " ".join(w)
        out = []
        for l in lines:
            if l.startswith("script "):
                t = l.split(" ", 2)
                out.append("script %s %s" % (t[1], " ; ".join(fix(o) for o in (t[2] if len(t) > 2 else "nop").split(" ; "))))
            elif l.startswith("new"):
                out.append(fix(l))
            else:
                out.append(l)
        return out

    def _program(self, name):
        x = self.r.random()
        if x > 1.0 - getattr(self.p, "directed_p", 0.08):
            return self.directed(name)
        if x < getattr(self.p, "chain_p", 0.04):
            return self.fin_chain(name)
        if x < getattr(self.p, "scenario_p", 0.3):
            return self.scenario(name)
        r = self.r
        f = self.p.feat
        self.fixed_shape = r.random() < self.p.shape_p
        self.ns, self.nu, self.nwf = r.randrange(1, 4), r.randrange(0, 3), (r.randrange(0, 3) if f["weak"] else 0)
        self.gen_scripts()
        lines = ["program %s" % name,
                 "consts %s" % self.consts,
                 "feat fin=%d weak=%d clean=%d auto=%d" % (f["fin"], f["weak"], f["clean"], f["auto"]),
                 "sizes node=%d map=%d" % (self.sizes["node"], self.sizes["map"]),
                 "tables %d %d %d" % (self.nh, self.nw, self.nk)]
        for i in sorted(self.scripts):
            lines.append("script %d %s" % (i, " ; ".join(self.scripts[i])))
        lines.append("begin")
        ops = []
        if f["auto"]:
            if r.random() > self.p.auto_p:
                ops.append("cfg auto 0")
            elif r.random() < 0.3:
                ops.append("cfg buf %d" % r.randrange(1, 5))
        # build phase: a few objects wired into cycles
        nb = r.randrange(1, min(self.nh, 5) + 1)
        for k in range(nb):
            ops.append("new h%d %s" % (k, self.spec(self.nscripts)))
        for _ in range(r.randrange(0, 2 * nb + 2)):
            ops.append("setf h%d %s h%d" % (r.randrange(nb), self.slot(), r.randrange(nb)))
        if f["weak"]:
            # weak pointers (in the tables and in weak fields) to objects that may later become garbage, so that
            # upgrades from finalizers / destructors / cleaning actions hit members of the set being reclaimed
            for _ in range(r.randrange(0, 4)):
                ops.append("down h%d w%d" % (r.randrange(nb), r.randrange(self.nw)))
            if self.nwf:
                for _ in range(r.randrange(0, 3)):
                    ops.append("setw h%d w%d w%d" % (r.randrange(nb), r.randrange(self.nwf), r.randrange(self.nw)))
        if f["clean"] and self.nscripts:
            for _ in range(r.randrange(0, 3)):
                sc = self.script_of("action", 1, self.nscripts)
                if sc:
                    ops.append("reg h%d %d c%d %s" % (r.randrange(nb), sc, r.randrange(self.nk), "-" if r.random() < 0.6 else "h%d" % r.randrange(nb)))
        n = r.randrange(*self.p.oplen)
        for _ in range(n):
            ops.append(self.op())
        if f["auto"] is not None and r.random() < getattr(self.p, "bulk_p", 0.0):
            # boundary of the strong / weak counters
            k = r.randrange(nb)
            mx, wmx = 16382, 32767
            for _ in range(r.randrange(1, 4)):
                pos = r.randrange(0, len(ops) + 1)
                c = r.random()
                if c < 0.4:
                    ops.insert(pos, "clonen h%d %d" % (k, mx - r.randrange(0, 6)))
                elif c < 0.6:
                    ops.insert(pos, "dropn h%d %d" % (k, r.choice([1, 2, 100, 16380, 20000])))
                elif c < 0.85 and f["weak"]:
                    ops.insert(pos, "downn h%d %d" % (k, wmx - r.randrange(0, 6)))
                elif f["weak"]:
                    ops.insert(pos, "wdropn h%d %d" % (k, r.choice([1, 5, 32760, 40000])))
        # faults
        if r.random() < self.p.fault_p:
            nf = 2 if r.random() < self.p.two_faults_p else 1
            for _ in range(nf):
                kind = r.choice(self.p.kinds)
                pos = r.randrange(0, len(ops) + 1)
                if kind == "trace":
                    ops.insert(pos, "fault trace %d %d" % (r.randrange(1, 6), r.randrange(0, 3)))
                else:
                    ops.insert(pos, "fault %s %d" % (kind, r.randrange(1, 4)))
        if r.random() < self.p.teardown_p:
            order = list(range(self.nh))
            r.shuffle(order)
            for k in order:
                if r.random() < 0.85:
                    ops.append("drop h%d" % k)
            for _ in range(r.randrange(1, 4)):
                ops.append("collect")
        lines += ops
        lines.append("end")
        return lines


def main():
    import argparse
    import json
    ap = argparse.ArgumentParser()
    ap.add_argument("--seed", type=int, default=0)
    ap.add_argument("--n", type=int, default=10)
    ap.add_argument("--feat", default="fin=1,weak=1,clean=1,auto=1")
    ap.add_argument("--sizes", default="node=168,map=80")
    ap.add_argument("--consts", default="passcap=10 thr=100 rcmax=16382 weakmax=32767 tcinit=1")
    ap.add_argument("--fault", type=float, default=0.0)
    ap.add_argument("--weights", default="{}")
    ap.add_argument("--prefix", default="g")
    a = ap.parse_args()
    feat = {k: int(v) for k, v in (x.split("=") for x in a.feat.split(","))}
    sizes = {k: int(v) for k, v in (x.split("=") for x in a.sizes.split(","))}
    prof = Profile("cli", feat, weights=json.loads(a.weights), fault_p=a.fault)
    rng = random.Random(a.seed)
    g = Gen(rng, prof, sizes, a.consts)
    for i in range(a.n):
        print("\n".join(g.program("%s-%d-%d" % (a.prefix, a.seed, i))))


if __name__ == "__main__":
    main()
