import RustCcModel.T1.FinalComplete
