import RustCcModel.Proofs.CtlSimp
/-! # C14 — `new_cyclic`: Weak dead until initialised; uninitialised data never touched -/
namespace RustCc.C14
open World

/-- World in which the closure of `new_cyclic` runs: box allocated, value not initialised, 0 strong, 1 weak. -/
def inClosure (w : World) (id : Id) : Prop :=
  (w.heap id).boxLive = true ∧ (w.heap id).valLive = false ∧ (w.heap id).rc = 0 ∧
  (w.metas id).weak = 1 ∧ (w.metas id).accessible = true

/-- Entering the closure establishes that state (the new object gets the next identity). -/
theorem closure_entry (c : Cfg) (w : World) (k : Nat) (sp : NewSpec) (body : Nat) (selfw : Option Nat) :
    inClosure (stepFrame c w (.newCyclicAlloc k sp body selfw)) w.next := by
  simp only [stepFrame, inClosure]
  split <;> simp [raiseLogged, raise, emit, push, updMeta, Metas.set, newObj, Heap.set] <;> (try split) <;> simp [Metas.set]

/-- Inside the closure the provided `Weak` reports `strong_count() = 0` and cannot be upgraded —
for as long as no strong pointer exists, i.e. until `new_cyclic` returns. -/
theorem closure_weak_dead (w : World) (id : Id) (h : (w.heap id).rc = 0) : w.weakStrong (.to id) = 0 := by
  unfold weakStrong; simp [h]

/-- After `new_cyclic` returns normally: the value is initialised and the strong count went from 0 to 1. -/
theorem after_return (c : Cfg) (w : World) (k : Nat) (id : Id) (sp : NewSpec) (h0 : (w.heap id).rc = 0) :
    ((stepFrame c w (.newCyclicEnd k id sp none)).heap id).rc = 1 ∧
    ((stepFrame c w (.newCyclicEnd k id sp none)).heap id).valLive = true := by
  have hwd : ∀ w' : World, (w'.weakDrop (.to id)).heap = w'.heap := by
    intro w'; unfold weakDrop; simp only; split <;> rfl
  simp only [stepFrame, Bool.false_and, if_false, Bool.false_eq_true]
  unfold putH
  split <;> simp [setH, push, hwd, upd, h0]

/-- If the closure (or anything it calls) panics, the guard releases the box without running any
destructor and makes the side record not accessible: every saved clone of the `Weak` stays dead. -/
theorem closure_panic_releases (c : Cfg) (w : World) (k : Nat) (id : Id) (sp : NewSpec) (selfw : Option Nat)
    (hm : (w.heap id).hasMeta = true) :
    ((unwindFrame c w (.newCyclicEnd k id sp selfw)).heap id).boxLive = false ∧
    ((unwindFrame c w (.newCyclicEnd k id sp selfw)).metas id).accessible = false := by
  simp only [unwindFrame]
  unfold weakDrop dropMetadata
  simp only [hm, if_true]
  repeat' split
  all_goals simp [freeBox, emit, upd, updMeta, Metas.set]

end RustCc.C14
