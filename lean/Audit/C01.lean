import RustCcModel.Properties.C01
#print axioms RustCc.C01.collectPass_computes_candidates
#print axioms RustCc.C01.candidates_unreachable
#print axioms RustCc.C01.reachable_not_candidate
