import RustCcModel.Model.Protocol
open RustCc

structure DState where
  cfg : Cfg := {}
  scripts : List (Nat × List Op) := []
  nH : Nat := 6
  nW : Nat := 4
  nK : Nat := 4
  world : World := {}
  running : Bool := false

def kv (t : String) : Option (String × String) :=
  match t.splitOn "=" with
  | [a, b] => some (a, b)
  | _ => none

def buildScripts (l : List (Nat × List Op)) : Array (List Op) :=
  let n := l.foldl (fun m (i, _) => max m (i + 1)) 1
  l.foldl (fun (a : Array (List Op)) (i, ops) => a.setIfInBounds i ops) (Array.replicate n [])

def handle (st : DState) (line : String) : DState × Option String :=
  let toks := splitToks line
  match toks with
  | [] => (st, none)
  | "#" :: _ => (st, none)
  | "program" :: name => ({ cfg := { passCap := st.cfg.passCap, defaultThr := st.cfg.defaultThr, rcMax := st.cfg.rcMax, weakMax := st.cfg.weakMax, tcInit := st.cfg.tcInit } }, some s!"== {" ".intercalate name}")
  | "consts" :: rest =>
    let c := rest.foldl (fun (c : Cfg) t =>
      match kv t with
      | some ("passcap", v) => { c with passCap := v.toNat?.getD c.passCap }
      | some ("thr", v) => { c with defaultThr := v.toNat?.getD c.defaultThr }
      | some ("rcmax", v) => { c with rcMax := v.toNat?.getD c.rcMax }
      | some ("weakmax", v) => { c with weakMax := v.toNat?.getD c.weakMax }
      | some ("tcinit", v) => { c with tcInit := v.toNat?.getD c.tcInit }
      | _ => c) st.cfg
    ({ st with cfg := c }, none)
  | "feat" :: rest =>
    let c := rest.foldl (fun (c : Cfg) t =>
      match kv t with
      | some ("fin", v) => { c with fin := v = "1" }
      | some ("weak", v) => { c with weak := v = "1" }
      | some ("clean", v) => { c with clean := v = "1" }
      | some ("auto", v) => { c with auto := v = "1" }
      | _ => c) st.cfg
    ({ st with cfg := c }, none)
  | "sizes" :: rest =>
    let c := rest.foldl (fun (c : Cfg) t =>
      match kv t with
      | some ("node", v) => { c with nodeSize := v.toNat?.getD 0 }
      | some ("map", v) => { c with mapSize := v.toNat?.getD 0 }
      | _ => c) st.cfg
    ({ st with cfg := c }, none)
  | ["tables", a, b, d] =>
    ({ st with nH := a.toNat?.getD 6, nW := b.toNat?.getD 4, nK := d.toNat?.getD 4 }, none)
  | "script" :: i :: body =>
    match i.toNat?, parseScript body with
    | some i, some ops => ({ st with scripts := (i, ops) :: st.scripts }, none)
    | _, _ => (st, some "bad-script")
  | ["begin"] =>
    let c := { st.cfg with scripts := buildScripts st.scripts }
    ({ st with cfg := c, world := World.init c st.nH st.nW st.nK, running := true }, none)
  | ["end"] => ({ st with running := false }, some "-- end")
  | _ =>
    if !st.running then (st, some "bad-header")
    else match parseOp toks with
      | none => (st, some "bad-op")
      | some op =>
        let w := execTopC st.cfg 2000000 st.world op
        let fuelOut := if !w.stack.isEmpty ∧ w.mode = .running then " !fuel" else ""
        ({ st with world := w }, some (observe st.cfg w ++ fuelOut))

partial def loop (h : IO.FS.Stream) (out : IO.FS.Stream) (st : DState) : IO Unit := do
  let line ← h.getLine
  if line.isEmpty then return ()
  let (st', o) := handle st line
  match o with
  | some s => out.putStrLn s
  | none => pure ()
  loop h out st'

def main : IO Unit := do
  let stdin ← IO.getStdin
  let stdout ← IO.getStdout
  loop stdin stdout {}
