import RustCcModel.Proofs.LifeHist
/-! Converse of `NP` for panic-free histories: what a frame owns as "dead" really is dead — or its `drop_in_place` is the very
next thing to run — and hence **a box is released only after its value is gone** (dropped, moved out by `try_unwrap`, or
never built). -/
namespace RustCc
open World
open T1 (Mark)

/-- Every box owned by a frame as dead has no live value, unless its `drop_in_place` is pending on top of the stack. -/
def Owned (w : World) : Prop :=
  ∀ x ∈ ownedDead w.stack, (w.heap x).lv.2 = false ∨ w.stack.head? = some (.dropValue x)

/-- A released box holds no live value. -/
def FreedDead (w : World) : Prop := ∀ x, (w.heap x).lv.1 = false → (w.heap x).lv.2 = false

/-! ### How a step changes the owned set -/

macro "own_tac" : tactic => `(tactic| (
  intro y hy
  first
    | exact Or.inl (List.mem_append_right _ hy)
    | (simp [ownedDead_cons, Frame.own, Frame.zeroed, Frame.dd, World.push, putH_owned, World.startCollect, foldl_free_stack'] at hy ⊢
       first | (exact Or.inl hy) | (exact hy) | (rcases hy with h | h <;> simp_all) | simp_all)))

theorem putH_owned (w : World) (k : Nat) (y : Id) : ownedDead (w.putH k y).stack = ownedDead w.stack := by
  unfold World.putH; split <;> simp [ownedDead_cons, Frame.own, Frame.zeroed, Frame.dd, World.push, World.setH]

set_option maxHeartbeats 8000000 in
theorem execOp_owned (c : Cfg) (w : World) (self wc : Option Id) (op : Op) :
    ∀ y ∈ ownedDead (execOp c w self wc op).stack, y ∈ ownedDead w.stack := by
  cases op with
  | fault kind n j => cases kind <;> exact fun _ h => h
  | _ =>
    simp only [execOp]
    repeat' split
    all_goals (
      intro y hy
      first
        | exact hy
        | (simp [ownedDead_cons, Frame.own, Frame.zeroed, Frame.dd, World.push, World.startCollect] at hy ⊢
           first | exact hy | (rcases hy with h | h <;> simp_all) | simp_all))

macro "own_tac3" : tactic => `(tactic| (
  intro y hy
  first
    | exact Or.inl (List.mem_append_right _ hy)
    | (simp [ownedDead_cons, Frame.own, Frame.zeroed, Frame.dd, World.push, putH_owned, World.startCollect, foldl_free_stack'] at hy ⊢
       first | (exact Or.inl hy) | (exact hy) | (rcases hy with h | h <;> simp_all) | simp_all)))

theorem destroyLast_owned (c : Cfg) (w : World) (x : Id) :
    ∀ y ∈ ownedDead (destroyLast c w x).stack, y ∈ ownedDead w.stack ∨ (destroyLast c w x).stack.head? = some (.dropValue y) := by
  obtain ⟨d, hd⟩ := destroyLast_stack c w x
  intro y hy
  rw [hd] at hy ⊢
  simp [ownedDead_cons, Frame.own, Frame.zeroed, Frame.dd] at hy ⊢
  rcases hy with h | h
  · exact Or.inr h.symm
  · exact Or.inl h

set_option maxHeartbeats 16000000 in
theorem stepFrame_owned (c : Cfg) (w : World) (f : Frame) :
    ∀ y ∈ ownedDead (stepFrame c w f).stack,
      y ∈ ownedDead (f :: w.stack) ∨ (y = w.next ∧ ((stepFrame c w f).heap y).lv.2 = false) ∨
        (stepFrame c w f).stack.head? = some (.dropValue y) := by
  cases f with
  | script ops self wc top =>
    cases ops with
    | nil => simp only [stepFrame]; exact fun y hy => Or.inl (by rw [ownedDead_cons]; exact List.mem_append_right _ hy)
    | cons op ops =>
      simp only [stepFrame]
      have := execOp_owned c (w.push (.script ops self wc top)) self wc op
      have e : ∀ y ∈ ownedDead (w.push (.script ops self wc top)).stack, y ∈ ownedDead (Frame.script (op :: ops) self wc top :: w.stack) := by
        intro y hy
        simp [ownedDead_cons, Frame.own, Frame.zeroed, Frame.dd, World.push] at hy ⊢
        exact hy
      split
      · exact fun y hy => Or.inl (e y (this y hy))
      · exact fun y hy => Or.inl (e y (this y hy))
  | dropCc x =>
    simp only [stepFrame]
    split
    · own_tac3
    · split
      · split
        · own_tac3
        · intro y hy
          rcases destroyLast_owned c w x y hy with h | h
          · exact Or.inl (by rw [ownedDead_cons]; exact List.mem_append_right _ h)
          · exact Or.inr (Or.inr h)
      · own_tac3
  | dropCcAfterFin x oldFin =>
    simp only [stepFrame]
    split
    · own_tac3
    · intro y hy
      rcases destroyLast_owned c { w with finalizing := oldFin } x y hy with h | h
      · exact Or.inl (by rw [ownedDead_cons]; exact List.mem_append_right _ h)
      · exact Or.inr (Or.inr h)
  | deallocDrop N r oD =>
    cases r with
    | cons x r =>
      simp only [stepFrame]
      have key : ∀ W : World, W.stack = .dropValue x :: .deallocDrop N r oD :: w.stack →
          ∀ y ∈ ownedDead W.stack, y ∈ ownedDead (Frame.deallocDrop N (x :: r) oD :: w.stack) ∨ (y = w.next ∧ (W.heap y).lv.2 = false) ∨ W.stack.head? = some (.dropValue y) := by
        intro W hW y hy
        rw [hW] at hy ⊢
        simp only [ownedDead_cons, Frame.own, Frame.zeroed, Frame.dd, List.nil_append, List.mem_append, List.mem_filter] at hy ⊢
        rcases hy with h | h
        · by_cases e : y = x
          · subst e; exact Or.inr (Or.inr rfl)
          · left; left
            refine ⟨h.1, ?_⟩
            have h2 := h.2
            simp only [Bool.not_eq_true', List.contains_eq_mem, decide_eq_false_iff_not, List.mem_cons, not_or] at h2 ⊢
            exact ⟨by simpa using e, by simpa using h2⟩
        · exact Or.inl (Or.inr h)
      split
      · exact key _ (by simp [World.push])
      · exact key _ (by simp [World.push])
    | nil =>
      simp only [stepFrame]
      split
      · own_tac3
      · intro y hy; simp [foldl_free_stack'] at hy; exact Or.inl (by rw [ownedDead_cons]; exact List.mem_append_right _ hy)
  | newCyclicAlloc k sp body selfw =>
    simp only [stepFrame]
    split <;>
    · intro y hy
      simp only [ownedDead_cons, Frame.own, Frame.zeroed, Frame.dd, World.push, World.emit, World.updMeta, List.append_nil, List.nil_append,
        List.mem_append, List.mem_singleton, List.mem_cons, List.not_mem_nil, or_false, false_or, stack_raise, stack_raiseLogged] at hy
      rcases hy with h | h
      · subst h
        refine Or.inr (Or.inl ⟨rfl, ?_⟩)
        simp [World.push, World.emit, World.updMeta, Heap.set, Obj.lv]
      · exact Or.inl (by rw [ownedDead_cons]; exact List.mem_append_right _ h)
  | collectPass =>
    simp only [stepFrame, startDealloc]
    generalize tracePhasesF _ _ _ _ _ = r
    obtain ⟨res, fault⟩ := r
    cases res <;> simp only [] <;> repeat' split
    all_goals own_tac3
  | regInsert owner script k cap =>
    simp only [stepFrame]
    split
    · own_tac3
    · split
      · own_tac3
      · cases hfr : (w.heap _).afree <;> simp only [] <;> split <;> own_tac3
  | _ =>
    simp only [stepFrame, startDealloc]
    repeat' split
    all_goals own_tac3

/-! ### The invariants -/

/-- Members of `ownedDead` are allocated identities. -/
theorem ownedDead_lt {w : World} (hc : Counts w) : ∀ x ∈ ownedDead w.stack, x < w.next := by
  intro x hx
  unfold ownedDead at hx
  obtain ⟨f, hf, hxf⟩ := List.mem_flatMap.1 hx
  apply hc.frames f hf x
  unfold Frame.own at hxf
  rcases List.mem_append.1 hxf with h | h
  · cases f <;> simp [Frame.zeroed, Frame.ids] at h ⊢ <;> exact h
  · cases f <;> simp [Frame.dd, Frame.ids] at h ⊢
    exact Or.inl h.1

theorem step_owned (c : Cfg) (w : World) (hall : AllInv c w) (hm : w.mode = .running) (ho : Owned w) : Owned (step c w) := by
  cases hs : w.stack with
  | nil =>
    have e : step c w = w := by unfold step; rw [hm]; simp only []; rw [hs]
    rw [e]; exact ho
  | cons f rest =>
    have e : step c w = stepFrame c { w with stack := rest } f := by unfold step; rw [hm]; simp only []; rw [hs]
    rw [e]
    intro y hy
    rcases stepFrame_owned c { w with stack := rest } f y hy with h | ⟨_, h⟩ | h
    · have hyw : y ∈ ownedDead w.stack := by rw [hs]; exact h
      have hylt := ownedDead_lt hall.counts y hyw
      rcases ho y hyw with hd | hd
      · -- dead before: still dead, unless `new_cyclic` has just finished building it — then no frame owns it any more
        cases hv : ((stepFrame c { w with stack := rest } f).heap y).lv.2 with
        | false => exact Or.inl rfl
        | true =>
          exfalso
          rcases stepFrame_val c { w with stack := rest } f y hv with h1 | ⟨h1, _⟩ | ⟨k, sp, sw, h1, _⟩
          · rw [show (({ w with stack := rest } : World).heap y).lv.2 = (w.heap y).lv.2 from rfl, hd] at h1; cases h1
          · exact absurd h1 (Nat.ne_of_lt hylt)
          · subst h1
            -- the value was built: the frame is gone and nothing else owns `y`
            obtain ⟨hoi, _, _⟩ := hall.inv.popped hs
            have hnod := hoi.ownNodup
            have hyZ : y ∈ (Frame.newCyclicEnd k y sp sw).zeroed := by simp [Frame.zeroed]
            have hnotrest : y ∉ ownedDead rest := by
              intro hm'
              rcases ownedDead_sub _ y hm' with h2 | h2
              · have := (List.nodup_append.1 (List.nodup_append.1 hnod).1)
                exact this.2.2 y hyZ y h2 rfl
              · have := (List.nodup_append.1 hnod).2.2 y (List.mem_append_left _ hyZ) y (List.mem_append_right _ h2)
                exact this rfl
            -- in the success branch the new stack owns what `rest` owns
            have hstack : ((stepFrame c { w with stack := rest } (.newCyclicEnd k y sp sw)).heap y).lv.2 = true →
                ownedDead (stepFrame c { w with stack := rest } (.newCyclicEnd k y sp sw)).stack = ownedDead rest := by
              intro hv'
              cases sw with
              | none =>
                simp only [stepFrame] at hv' ⊢
                split
                · rename_i hc'; simp [hc'] at hv'; simp [World.push, Obj.lv] at hv'
                  rw [show ((w.heap y).valLive) = (w.heap y).lv.2 from rfl, hd] at hv'; cases hv'
                · rw [putH_owned]; split <;> simp
              | some j =>
                simp only [stepFrame] at hv' ⊢
                split
                · rename_i hc'; simp [hc'] at hv'; simp [World.push, Obj.lv] at hv'
                  rw [show ((w.heap y).valLive) = (w.heap y).lv.2 from rfl, hd] at hv'; cases hv'
                · rw [putH_owned]; split <;> simp
            rw [hstack hv] at hy
            exact hnotrest hy
      · -- its `drop_in_place` was pending: it has just started
        rw [hs] at hd
        simp only [List.head?_cons, Option.some.injEq] at hd
        subst hd
        exact Or.inl (dropValue_dead c _ y)
    · exact Or.inl h
    · exact Or.inr h

theorem init_owned (c : Cfg) (nH nW nK : Nat) : Owned (World.init c nH nW nK) := by
  intro x hx; simp [World.init, ownedDead] at hx

theorem reachableR_owned (c : Cfg) (nH nW nK : Nat) (w : World) (h : ReachableR c nH nW nK w) : Owned w := by
  induction h with
  | init => exact init_owned c nH nW nK
  | step w hr hm ih => exact step_owned c w (reachable_all c nH nW nK w hr.reachable) hm ih
  | top w op hr hs hm ih => intro x hx; simp [ownedDead, Frame.own, Frame.zeroed, Frame.dd] at hx

/-! ### A released box holds no live value -/

macro "fr_tac" : tactic => `(tactic| (
  intro x h1 h2
  exfalso
  have : _ = (_ : Bool) := h1
  simp [upd_lv_same, updAll_lv_same, putH_lv, World.setH, World.setW, World.setK, World.startCollect, World.emit, World.push,
    World.updMeta] at h1
  simp_all))

set_option maxHeartbeats 8000000 in
/-- A script operation that releases a box (`try_unwrap`) has moved its value out. -/
theorem execOp_freed (c : Cfg) (w : World) (self wc : Option Id) (op : Op) :
    ∀ x, ((execOp c w self wc op).heap x).lv.1 = false → (w.heap x).lv.1 = true → ((execOp c w self wc op).heap x).lv.2 = false := by
  cases op with
  | fault kind n j =>
    cases kind <;> (intro x h1 h2; exfalso; change (w.heap x).lv.1 = false at h1; rw [h2] at h1; cases h1)
  | unwrap k =>
    simp only [execOp]
    split
    · split
      · intro x h1 h2; rw [h2] at h1; cases h1
      · rename_i y hy hg
        intro x h1 h2
        by_cases e : x = y
        · subst e
          show (((_ : World).freeBox x).heap x).lv.2 = false
          rw [freeBox_val]
          split <;> simp [World.upd, Obj.lv]
        · exfalso
          split at h1 <;>
          · simp only [World.push_heap, freeBox_lv, e, if_false, dropMetadata_lv] at h1
            have : ((((w.setH k none).removeFromList y).upd y fun o => { o with valLive := false }).heap x).lv = (w.heap x).lv := by
              simp [World.upd, Heap.set, e, World.setH]
            rw [this, h2] at h1; cases h1
    · intro x h1 h2; rw [h2] at h1; cases h1
  | _ =>
    simp only [execOp]
    repeat' split
    all_goals (
      intro x h1 h2
      exfalso
      first
        | (change (w.heap x).lv.1 = false at h1; rw [h2] at h1; cases h1)
        | (simp [upd_lv_same, updAll_lv_same, putH_lv, World.setH, World.setW, World.setK, World.startCollect, World.emit, World.push,
            World.updMeta, h2] at h1))

macro "fr_same" : tactic => `(tactic| (
  intro x h1 h2
  exfalso
  first
    | (change (_ : Bool) = false at h1; rw [h2] at h1; cases h1)
    | (simp [upd_lv_same, updAll_lv_same, putH_lv, World.setH, World.setW, World.setK, World.startCollect, World.emit, World.push,
        World.updMeta, h2] at h1)))

set_option maxHeartbeats 16000000 in
/-- A frame step that releases a box releases one the frame owns as dead. -/
theorem stepFrame_freed (c : Cfg) (w : World) (f : Frame) :
    ∀ x, ((stepFrame c w f).heap x).lv.1 = false → (w.heap x).lv.1 = true → x ∈ f.own ∨ ((stepFrame c w f).heap x).lv.2 = false := by
  cases f with
  | script ops self wc top =>
    cases ops with
    | nil => simp only [stepFrame]; intro x h1 h2; rw [h2] at h1; cases h1
    | cons op ops =>
      simp only [stepFrame]
      have := execOp_freed c (w.push (.script ops self wc top)) self wc op
      split <;> exact fun x h1 h2 => Or.inr (this x h1 h2)
  | afterDropValue y oD =>
    simp only [stepFrame]
    split
    · intro x h1 h2; change (w.heap x).lv.1 = false at h1; rw [h2] at h1; cases h1
    · intro x h1 h2
      by_cases e : x = y
      · subst e; exact Or.inl (by simp [Frame.own, Frame.zeroed])
      · exfalso
        split at h1 <;>
        · simp only [freeBox_lv, e, if_false, dropMetadata_lv] at h1
          rw [h2] at h1; cases h1
  | deallocDrop N r oD =>
    cases r with
    | cons y r => simp only [stepFrame]; repeat' split
                  all_goals fr_same
    | nil =>
      simp only [stepFrame]
      split
      · intro x h1 h2; change (w.heap x).lv.1 = false at h1; rw [h2] at h1; cases h1
      · intro x h1 h2
        by_cases e : x ∈ N
        · exact Or.inl (by simp [Frame.own, Frame.zeroed, Frame.dd, e])
        · exfalso
          simp only [foldl_free_lv, e, if_false] at h1
          rw [h2] at h1; cases h1
  | collectPass =>
    simp only [stepFrame, startDealloc]
    generalize tracePhasesF _ _ _ _ _ = r
    obtain ⟨res, fault⟩ := r
    cases res <;> simp only [] <;> repeat' split
    all_goals fr_same
  | dropFields y unw =>
    simp only [stepFrame]
    have ht := takeField_lv (w.heap y)
    split
    · rename_i z o' hz
      rw [hz] at ht
      have ht' : o'.lv = (w.heap y).lv := ht
      intro x h1 h2
      exfalso
      by_cases e : x = y
      · subst e; simp [World.push, ht', h2] at h1
      · simp [World.push, World.upd, Heap.set, e, h2] at h1
    · rename_i z o' hz
      rw [hz] at ht
      have ht' : o'.lv = (w.heap y).lv := ht
      intro x h1 h2
      exfalso
      rw [weakDrop_lv] at h1
      by_cases e : x = y
      · subst e; simp [World.push, ht', h2] at h1
      · simp [World.push, World.upd, Heap.set, e, h2] at h1
    · split <;> (intro x h1 h2; change (w.heap x).lv.1 = false at h1; rw [h2] at h1; cases h1)
  | regInsert owner script k cap =>
    simp only [stepFrame]
    split
    · intro x h1 h2; change (w.heap x).lv.1 = false at h1; rw [h2] at h1; cases h1
    · split
      · fr_same
      · rename_i m hm hb
        have hgen : ∀ (idx : Nat) (om' : Obj), om'.lv = (w.heap m).lv → ∀ x,
            ((if (((({ w with nextAid := w.nextAid + 1 } : World).upd m fun _ => om').initMeta m).metas m).weak ≥ c.weakMax then
                ((({ w with nextAid := w.nextAid + 1 } : World).upd m fun _ => om').initMeta m).raise
              else ((((({ w with nextAid := w.nextAid + 1 } : World).upd m fun _ => om').initMeta m).updMeta m
                fun mm => { mm with weak := mm.weak + 1 }).removeFromList m).setK k (some (m, idx, w.nextAid))).heap x).lv.1 = false →
            (w.heap x).lv.1 = true → False := by
          intro idx om' hom x h1 h2
          have hlv : ((({ w with nextAid := w.nextAid + 1 } : World).upd m fun _ => om').heap x).lv = (w.heap x).lv := by
            by_cases e : x = m
            · subst e; simpa using hom
            · simp [World.upd, Heap.set, e]
          split at h1
          · rw [raise_lv, initMeta_lv, hlv, h2] at h1; cases h1
          · have : ∀ W : World, ((W.setK k (some (m, idx, w.nextAid))).heap x) = W.heap x := fun _ => rfl
            rw [this, removeFromList_lv] at h1
            simp only [World.updMeta_heap] at h1
            rw [initMeta_lv, hlv, h2] at h1; cases h1
        cases hfr : (w.heap m).afree with
        | nil =>
          simp only []
          intro x h1 h2; exfalso
          refine hgen _ _ ?_ x h1 h2; rfl
        | cons i fr =>
          simp only []
          intro x h1 h2; exfalso
          refine hgen _ _ ?_ x h1 h2; rfl
  | newAlloc k sp =>
    simp only [stepFrame]
    intro x h1 h2; exfalso
    rw [putH_lv] at h1
    by_cases e : x = w.next
    · subst e; simp [World.emit, Heap.set, Obj.lv, newObj] at h1
    · simp [World.emit, Heap.set, e, h2] at h1
  | newCyclicAlloc k sp body selfw =>
    simp only [stepFrame]
    split <;>
    · intro x h1 h2; exfalso
      by_cases e : x = w.next
      · subst e; simp [World.emit, World.push, World.updMeta, Heap.set, Obj.lv, newObj] at h1
      · simp [World.emit, World.push, World.updMeta, Heap.set, e, h2] at h1
  | mapAlloc owner =>
    simp only [stepFrame]
    split
    · intro x h1 h2; exfalso
      simp only [upd_lv_same _ _ (fun o : Obj => { o with cmap := some w.next }) _ (fun _ => ⟨rfl, rfl⟩)] at h1
      by_cases e : x = w.next
      · subst e; simp [World.emit, Heap.set, Obj.lv] at h1
      · simp [World.emit, Heap.set, e, h2] at h1
    · intro x h1 h2; exfalso
      by_cases e : x = w.next
      · subst e; simp [World.emit, World.push, Heap.set, Obj.lv] at h1
      · simp [World.emit, World.push, Heap.set, e, h2] at h1
  | newCyclicEnd k id sp selfw =>
    intro x h1 h2; exfalso
    cases selfw with
    | none =>
      simp only [stepFrame] at h1
      split at h1
      · simp [World.push, h2] at h1
      · rw [putH_lv, weakDrop_lv] at h1
        by_cases e : x = id
        · subst e; split at h1 <;> simp [World.upd, Obj.lv, World.updMeta] at h1 <;> (rw [show (w.heap x).boxLive = (w.heap x).lv.1 from rfl, h2] at h1; cases h1)
        · split at h1 <;> simp [World.upd, Heap.set, e, World.updMeta, h2] at h1
    | some j =>
      simp only [stepFrame] at h1
      split at h1
      · simp [World.push, h2] at h1
      · rw [putH_lv, weakDrop_lv] at h1
        by_cases e : x = id
        · subst e; split at h1 <;> simp [World.upd, Obj.lv, World.updMeta] at h1 <;> (rw [show (w.heap x).boxLive = (w.heap x).lv.1 from rfl, h2] at h1; cases h1)
        · split at h1 <;> simp [World.upd, Heap.set, e, World.updMeta, h2] at h1
  | dropValue y =>
    simp only [stepFrame]
    repeat' split
    all_goals (
      intro x h1 h2; exfalso
      by_cases e : x = y
      · subst e; simp [World.upd, World.push, World.emit, Obj.lv] at h1; rw [show (w.heap x).boxLive = (w.heap x).lv.1 from rfl, h2] at h1; cases h1
      · simp [World.upd, World.push, World.emit, Heap.set, e, h2] at h1)
  | _ =>
    simp only [stepFrame, destroyLast, startDealloc]
    repeat' split
    all_goals fr_same

theorem step_freedDead (c : Cfg) (w : World) (hall : AllInv c w) (hm : w.mode = .running) (ho : Owned w) (hf : FreedDead w) :
    FreedDead (step c w) := by
  cases hs : w.stack with
  | nil =>
    have e : step c w = w := by unfold step; rw [hm]; simp only []; rw [hs]
    rw [e]; exact hf
  | cons f rest =>
    have e : step c w = stepFrame c { w with stack := rest } f := by unfold step; rw [hm]; simp only []; rw [hs]
    rw [e]
    intro x hb
    cases hv : ((stepFrame c { w with stack := rest } f).heap x).lv.2 with
    | false => rfl
    | true =>
      exfalso
      rcases stepFrame_val c { w with stack := rest } f x hv with h1 | ⟨_, h2⟩ | ⟨k, sp, sw, h1, h2⟩
      · -- the value was alive before: its box existed, so this step released it
        have hbl : (w.heap x).lv.1 = true := by
          cases hbb : (w.heap x).lv.1 with
          | true => rfl
          | false => have := hf x hbb; rw [show (({ w with stack := rest } : World).heap x).lv.2 = (w.heap x).lv.2 from rfl, this] at h1; cases h1
        rcases stepFrame_freed c { w with stack := rest } f x hb hbl with h3 | h3
        · -- released by its owner frame: the value was already gone
          have hxo : x ∈ ownedDead w.stack := by rw [hs, ownedDead_cons]; exact List.mem_append_left _ h3
          rcases ho x hxo with h4 | h4
          · rw [show (({ w with stack := rest } : World).heap x).lv.2 = (w.heap x).lv.2 from rfl, h4] at h1; cases h1
          · rw [hs] at h4
            simp only [List.head?_cons, Option.some.injEq] at h4
            subst h4
            simp [Frame.own, Frame.zeroed, Frame.dd] at h3
        · rw [h3] at hv; cases hv
      · rw [h2] at hb; cases hb
      · subst h1
        have hz : x ∈ zeroed w.stack := by rw [hs, zeroed_cons]; simp [Frame.zeroed]
        have hbx : (w.heap x).boxLive = true := (hall.inv.oi.zero x hz).1
        rw [h2] at hb
        rw [show (({ w with stack := rest } : World).heap x).lv.1 = (w.heap x).boxLive from rfl, hbx] at hb; cases hb

theorem reachableR_freedDead (c : Cfg) (nH nW nK : Nat) (w : World) (h : ReachableR c nH nW nK w) : FreedDead w := by
  induction h with
  | init => intro x _; rfl
  | step w hr hm ih =>
    exact step_freedDead c w (reachable_all c nH nW nK w hr.reachable) hm (reachableR_owned c nH nW nK w hr) ih
  | top w op hr hs hm ih => exact ih

end RustCc
