/-! Model of `Config::should_collect` / `Config::adjust` (config.rs).

Two levels:
* `Policy.adjust` — `adjustment_percent` as an exact fraction `num / den` (every `f64` in `[0,1]` is one);
* `Policy.adjustF` — what the code computes: `(thr as f64) * percent` rounded to nearest-even, with
  `percent` given by its IEEE-754 bit pattern. `Proofs/Policy*.lean` relate the two.

`D` is `DEFAULT_BYTES_THRESHOLD` (regenerated from config.rs into `Generated/Consts.lean`). -/
namespace Policy

/-- First case of `adjust`: `loop { thr <<= 1; if allocated < thr { break } }`. -/
def grow : Nat → Nat → Nat → Nat
  | 0, _, thr => thr
  | f + 1, alloc, thr => if alloc < thr * 2 then thr * 2 else grow f alloc (thr * 2)

/-- Second case: `while allocated <= thr * percent { … }` with its three exits. -/
def shrink (D : Nat) : Nat → Nat → Nat → Nat → Nat → Nat
  | 0, _, _, _, thr => thr
  | f + 1, alloc, num, den, thr =>
    if alloc * den ≤ thr * num then
      if thr / 2 ≤ alloc then thr
      else if thr / 2 ≤ D then D
      else shrink D f alloc num den (thr / 2)
    else thr

def adjust (D fuel alloc num den thr : Nat) : Nat :=
  if thr ≤ alloc then grow fuel alloc thr
  else if thr * num = 0 then thr
  else shrink D fuel alloc num den thr

def shouldCollect (auto : Bool) (alloc thr buffered : Nat) (bufThr : Option Nat) : Bool :=
  auto && (decide (thr < alloc) || match bufThr with | some b => decide (b < buffered) | none => false)

/-! ### IEEE-754 binary64, the part `adjust` uses: `usize as f64`, `f64 * f64`, `<=`, `== 0.0`
for finite non-negative values. A finite non-negative double is `m * 2^(e - 1074)` with `m < 2^53`
(`e = 0` for sub-normals and the smallest normal binade). Values are kept as `(m, e)` with the value
`m * 2^e / 2^1074`, not necessarily normalised. -/

/-- Decode the bit pattern of a finite non-negative `f64` to `(m, e)` with value `m * 2^e / 2^1074`. -/
def decode (bits : Nat) : Nat × Nat :=
  let frac := bits % 2 ^ 52
  let ex := (bits / 2 ^ 52) % 2 ^ 11
  if ex = 0 then (frac, 0) else (frac + 2 ^ 52, ex - 1)

/-- Round the non-negative rational `n / 2^1074` (so `n` is the value in units of the smallest
sub-normal) to the nearest `f64`, ties to even; result again in units of `2^-1074`.
Overflow to infinity cannot happen for the operands `adjust` produces (`thr < 2^64`, `percent ≤ 1`). -/
def roundUnits (n : Nat) : Nat :=
  let len := Nat.log2 n + 1            -- bit length (1 for n = 0, harmless)
  if len ≤ 53 then n
  else
    let sh := len - 53
    let q := n / 2 ^ sh
    let r := n % 2 ^ sh
    let half := 2 ^ (sh - 1)
    let q' := if r > half ∨ (r = half ∧ q % 2 = 1) then q + 1 else q
    q' * 2 ^ sh

/-- `(thr as f64) * percent` in units of `2^-1074`; `thr as f64` rounds too (exact below `2^53`). -/
def productUnits (thr bits : Nat) : Nat :=
  let t := roundUnits (thr * 2 ^ 1074) / 2 ^ 1074   -- `thr as f64`, an integer again
  let (m, e) := decode bits
  -- exact product t * m * 2^e / 2^1074, in units: t * m * 2^e
  roundUnits (t * m * 2 ^ e)

/-- `allocated as f64 <= product` (allocated rounds as well, exact below `2^53`). -/
def leProduct (alloc thr bits : Nat) : Bool :=
  decide (roundUnits (alloc * 2 ^ 1074) ≤ productUnits thr bits)

def shrinkF (D : Nat) : Nat → Nat → Nat → Nat → Nat
  | 0, _, _, thr => thr
  | f + 1, alloc, bits, thr =>
    if leProduct alloc thr bits then
      if thr / 2 ≤ alloc then thr
      else if thr / 2 ≤ D then D
      else shrinkF D f alloc bits (thr / 2)
    else thr

/-- `Config::adjust` as the code computes it. `usize` is 64 bits: `checked_shl(1)` never fails for a
shift of 1, the doubling wraps silently — modelled by `% 2^64` — and for `alloc < 2^62` never does. -/
def adjustF (D fuel alloc bits thr : Nat) : Nat :=
  if thr ≤ alloc then grow fuel alloc thr
  else if productUnits thr bits = 0 then thr
  else shrinkF D fuel alloc bits thr

/-- Fuel that always suffices for both loops (`Proofs/Policy.lean: fuel_exists`). -/
def fuelFor (alloc thr : Nat) : Nat := alloc + thr + 1

end Policy
