import RustCcModel.Properties.C12
#print axioms RustCc.C12.not_tracing_in_callbacks
#print axioms RustCc.C12.not_tracing_outside_collections
#print axioms RustCc.C12.startCollect_is_tracing
#print axioms RustCc.C12.collect_nested_noop
#print axioms RustCc.C12.no_auto_collect_while_collecting
#print axioms RustCc.C12.startCollect_counts
#print axioms RustCc.C12.unwrap_err_in_callbacks
#print axioms RustCc.C12.finAgain_panics_in_callbacks
#print axioms RustCc.C12.raise_keeps_heap
#print axioms RustCc.C12.tracing_flag_of_every_callback
#print axioms RustCc.C12.not_tracing_unless_collector_on_top
#print axioms RustCc.C12.tracing_when_pass_on_top
#print axioms RustCc.C12.collections_never_nest
#print axioms RustCc.C12.flag_up_inside_callbacks
#print axioms RustCc.C12.unwrap_err_inside_callbacks
#print axioms RustCc.C12.finalize_again_panics_inside_callbacks
