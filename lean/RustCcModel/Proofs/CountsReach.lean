import RustCcModel.Proofs.CountsFrames
import RustCcModel.Proofs.FlagsStep
/-! `Counts` holds in every reachable world. -/
namespace RustCc
open World
variable {ex : Bool}

/-- Table index used by an allocation frame. -/
def Frame.kOk (n : Nat) : Frame → Prop
  | .newAlloc k _ => k < n
  | .newCyclicAlloc k _ _ _ => k < n
  | .newCyclicEnd k _ _ _ => k < n
  | _ => True

/-- What *exactness* of the counts needs beyond `Counts` itself (nothing of this is needed for `≤`): table indices held by
allocation frames are in range (else the new pointer would be lost), and the free list of every slot map names distinct,
existing, empty slots (else `register` would overwrite a registered action and lose its captured pointer). -/
structure AuxX (w : World) : Prop where
  kok : ∀ f ∈ w.stack, f.kOk w.H.length
  free : ∀ m, (w.heap m).afree.Nodup ∧ ∀ i ∈ (w.heap m).afree, i < (w.heap m).aslots.length ∧ (w.heap m).aslots.getD i none = none

theorem AuxX.head {w : World} (h : AuxX w) (m : Id) (i : Nat) (fr : List Nat) (hfr : (w.heap m).afree = i :: fr) :
    i < (w.heap m).aslots.length ∧ (w.heap m).aslots.getD i none = none :=
  (h.free m).2 i (by rw [hfr]; exact List.mem_cons_self ..)

theorem CountsG.ofFalse {w : World} {b : Bool} (h : CountsG false w) (hb : b = false) : CountsG b w := hb ▸ h

/-- **Every frame step preserves `Counts`** — and, given `AuxX`, its exact form, unless the step ends in the model's
`stuck` state (a debug assertion of the crate failed). -/
theorem stepFrame_counts (c : Cfg) (w : World) (f : Frame) (rest : List Frame) (h : CountsG ex w) (hs : w.stack = f :: rest)
    (ha : ex = true → AuxX w) :
    CountsG (ex && decide ((stepFrame c { w with stack := rest } f).mode ≠ .stuck)) (stepFrame c { w with stack := rest } f) := by
  have hk : ∀ g ∈ w.stack, ex = true → g.kOk w.H.length := fun g hg hex => (ha hex).kok g hg
  cases f with
  | script ops self wc top => exact (stepFrame_counts_script c w ops self wc top rest h hs).weakenAnd _
  | catchTop =>
    simp only [stepFrame]
    exact ((h.pop hs).1.of_count (E' := []) (fun _ => by simp [Frame.holds])).toCounts0.weakenAnd _
  | setRet r =>
    simp only [stepFrame]
    refine CountsG.weakenAnd ?_ _
    counts_congr ((h.pop hs).1.of_count (E' := []) (fun _ => by simp [Frame.holds]))
  | adjustAfter =>
    simp only [stepFrame]
    refine CountsG.weakenAnd ?_ _
    counts_congr ((h.pop hs).1.of_count (E' := []) (fun _ => by simp [Frame.holds]))
  | dropCc x => exact (stepFrame_counts_dropCc c w x rest h hs).weakenAnd _
  | dropCcAfterFin x oldFin => exact (stepFrame_counts_dropCcAfterFin c w x oldFin rest h hs).weakenAnd _
  | afterDropValue x oldDrop => exact (stepFrame_counts_afterDropValue c w x oldDrop rest h hs).weakenAnd _
  | dropValue x => exact (stepFrame_counts_dropValue c w x rest h hs).weakenAnd _
  | dropMoved x => exact (stepFrame_counts_dropMoved c w x rest h hs).weakenAnd _
  | dropFields x unw => exact (stepFrame_counts_dropFields c w x unw rest h hs).weakenAnd _
  | dropActions m i unw => exact (stepFrame_counts_dropActions c w m i unw rest h hs).weakenAnd _
  | actionEnd cap unw => exact (stepFrame_counts_actionEnd c w cap unw rest h hs).weakenAnd _
  | callFin x => exact (stepFrame_counts_callFin c w x rest h hs).weakenAnd _
  | collectLoop n oldFin oldDrop => exact (stepFrame_counts_collectLoop c w n oldFin oldDrop rest h hs).weakenAnd _
  | collectPass => exact (stepFrame_counts_collectPass c w rest h hs).weakenAnd _
  | finalizePass N r hasFin oldFin => exact (stepFrame_counts_finalizePass c w N r hasFin oldFin rest h hs).weakenAnd _
  | deallocDrop N r oldDrop => exact (stepFrame_counts_deallocDrop c w N r oldDrop rest h hs).weakenAnd _
  | newAlloc k sp =>
    exact (stepFrame_counts_newAlloc c w k sp rest h hs (fun hex => hk (.newAlloc k sp) (by rw [hs]; exact List.mem_cons_self ..) hex)).weakenAnd _
  | newCyclicAlloc k sp body selfw => exact (stepFrame_counts_newCyclicAlloc c w k sp body selfw rest h hs).weakenAnd _
  | newCyclicEnd k id sp selfw =>
    exact (stepFrame_counts_newCyclicEnd c w k id sp selfw rest h hs (fun hex => hk (.newCyclicEnd k id sp selfw) (by rw [hs]; exact List.mem_cons_self ..) hex)).weakenAnd _
  | regInsert owner script k cap =>
    exact stepFrame_counts_regInsert c w owner script k cap rest h hs (fun hex m i fr hfr => (ha hex).head m i fr hfr)
  | mapAlloc owner => exact (stepFrame_counts_mapAlloc c w owner rest h hs).weakenAnd _
  | cleanEnd m byUs unw => exact (stepFrame_counts_cleanEnd c w m byUs unw rest h hs).weakenAnd _
  | dropMany x n => exact (stepFrame_counts_dropMany c w x n rest h hs).weakenAnd _

/-- The exactness flag after a step: exactness is kept by steps of the running machine that do not end stuck; an
unwinding step may leak (the pointers held by the popped frame are forgotten). -/
def stepFlag (ex : Bool) (w w' : World) : Bool := ex && decide (w.mode = .running) && decide (w'.mode ≠ .stuck)

/-- **One micro-step of the machine preserves `Counts`** (and its exact form, see `stepFlag`). -/
theorem step_countsG (c : Cfg) (w : World) (h : CountsG ex w) (ha : ex = true → AuxX w)
    (hcyc : ∀ k id sp sw rest, w.stack = .newCyclicEnd k id sp sw :: rest → (w.heap id).rc = 0) :
    CountsG (stepFlag ex w (step c w)) (step c w) := by
  unfold step
  split
  · rename_i hm; exact h.weaken.ofFalse (by simp [stepFlag, hm])
  · rename_i hm; exact h.weaken.ofFalse (by simp [stepFlag, hm])
  · rename_i hm
    refine CountsG.ofFalse ?_ (by simp [stepFlag, hm])
    split
    · exact h.weaken.congr rfl rfl rfl rfl rfl rfl rfl
    · rename_i f rest hs
      exact unwindFrame_counts c w f rest h hs (fun k id sp sw e => hcyc k id sp sw rest (e ▸ hs))
  · rename_i hm
    split
    · have : stepFlag ex w w = (ex && decide (w.mode ≠ .stuck)) := by simp [stepFlag, hm]
      rw [this]; exact h.weakenAnd _
    · rename_i f rest hs
      have : stepFlag ex w (stepFrame c { w with stack := rest } f) = (ex && decide ((stepFrame c { w with stack := rest } f).mode ≠ .stuck)) := by
        simp [stepFlag, hm]
      rw [this]
      exact stepFrame_counts c w f rest h hs ha

/-- The invariant for every history. -/
theorem step_counts (c : Cfg) (w : World) (h : Counts w)
    (hcyc : ∀ k id sp sw rest, w.stack = .newCyclicEnd k id sp sw :: rest → (w.heap id).rc = 0) : Counts (step c w) :=
  (step_countsG c w h (fun hex => nomatch hex) hcyc).weaken

theorem init_counts (c : Cfg) (nH nW nK : Nat) : CountsG ex (World.init c nH nW nK) := by
  have hr : ∀ x, refs (World.init c nH nW nK) x = 0 := by
    intro x
    simp [refs, World.init, fieldRefs, held, optIds]
  refine ⟨fun x => by rw [hr]; exact Nat.zero_le _, fun _ x => by rw [hr]; simp [World.init], fun x _ => hr x, ?_, ?_, ?_⟩
  · intro f hf; cases hf
  · intro x hx; cases hx
  · intro x _; rfl

end RustCc
