import RustCcModel.Proofs.BytesDefs
/-! The effect of one script operation on sizes, liveness, `allocBytes` and the log. -/
namespace RustCc
open World
open T1 (Mark)

/-- Close a goal `∃ F, Eff w w' F ∧ _` with `F = []` (the right conjunct is closed by `Or.inl rfl`). -/
macro "eff0" : tactic => `(tactic| (
  refine ⟨[], Eff.mk0 ?_ ?_ ?_ ?_ ?_ ?_, Or.inl rfl⟩ <;>
    simp [upd_boxLive_same, upd_size_same, updAll_boxLive_same, updAll_size_same]))

set_option maxHeartbeats 4000000 in
theorem execOp_eff (c : Cfg) (w : World) (self wc : Option Id) (op : Op) :
    ∃ F, Eff w (execOp c w self wc op) F ∧ (F = [] ∨ ∃ x, F = [x] ∧ (w.heap x).rc = 1) := by
  cases op with
  | unwrap k =>
    simp only [execOp]
    split
    · rename_i x hx
      split
      · eff0
      · rename_i hc
        have hrc : (w.heap x).rc = 1 := by
          apply Classical.byContradiction
          intro h; exact hc (Or.inl h)
        refine ⟨[x], Eff.mk1 ?_ ?_ ?_ ?_ ?_ ?_, Or.inr ⟨x, rfl, hrc⟩⟩ <;> split <;>
          simp [upd_boxLive_same, upd_size_same, freeBox_size, freeBox_boxLive, freeBox_allocBytes, freeBox_events]
    · eff0
  | _ =>
    simp only [execOp]
    repeat' split
    all_goals eff0

end RustCc
