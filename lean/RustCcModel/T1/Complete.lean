import RustCcModel.T1.Drain
namespace T1

/-! ## T2: completeness of one pass -/

/-- Reachability through traced fields. -/
inductive EReach (h : Heap) : Nat → Nat → Prop
  | refl (x : Nat) : EReach h x x
  | step {a b c : Nat} : EReach h a b → c ∈ (h b).edges → EReach h a c

theorem EReach.congr {h h' : Heap} (he : ∀ u, (h' u).edges = (h u).edges) {a b : Nat}
    (r : EReach h a b) : EReach h' a b := by
  induction r with
  | refl => exact .refl _
  | step _ hc ih => exact .step ih (by rw [he]; exact hc)

/-! ### Phase 1: every finished / queued / buffered object is reachable from the initial buffer,
and the finished set only grows -/

def From (h0 : Heap) (P0 : List Nat) (x : Nat) : Prop := ∃ p ∈ P0, EReach h0 p x

theorem countObj_queue_from (h0 : Heap) (P0 : List Nat) (s : TS) (x : Nat)
    (hf : ∀ z, (s.h z).edges = (h0 z).edges) (hx : From h0 P0 x)
    (hq : ∀ u ∈ s.queue, From h0 P0 u) : ∀ u ∈ (countObj s x).queue, From h0 P0 u := by
  intro u hu
  rcases countObj_queue_sub s x u hu with h | h
  · exact hq u h
  · obtain ⟨p, hp, hr⟩ := hx
    exact ⟨p, hp, .step hr (by rw [← hf x]; exact h)⟩

/-- Strengthened loop lemma for the buffer: the result's finished set contains the old one and
the whole buffer, and everything finished or queued is reachable from the initial buffer. -/
theorem countPC_P1x' (h0 : Heap) (L : Nat → Prop) (ctx : Ctx h0 L) (P0 : List Nat) (P : List Nat) :
    ∀ (s : TS) (done : List Nat), P1x h0 L s done P → P.Nodup → (∀ u ∈ P, L u) →
      (∀ u ∈ P, From h0 P0 u) → (∀ u ∈ done, From h0 P0 u) → (∀ u ∈ s.queue, From h0 P0 u) →
      ∃ done', P1x h0 L (countPC s P) done' [] ∧ (∀ u ∈ done, u ∈ done') ∧ (∀ u ∈ P, u ∈ done') ∧
        (∀ u ∈ done', From h0 P0 u) ∧ (∀ u ∈ (countPC s P).queue, From h0 P0 u) := by
  induction P with
  | nil => intro s done h _ _ _ hd hq; exact ⟨done, h, fun u hu => hu, by simp, hd, hq⟩
  | cons x P ih =>
    intro s done h hn hL hPf hd hq
    have hxP := (List.nodup_cons.1 hn).1
    have hstep := step_pc h0 L ctx s done x P h hxP (hL x (by simp))
    have hxf := hPf x (by simp)
    obtain ⟨done', h1, h2, h3, h4, h5⟩ := ih (countObj s x) (x :: done) hstep
      (List.nodup_cons.1 hn).2 (fun u hu => hL u (List.mem_cons_of_mem _ hu))
      (fun u hu => hPf u (List.mem_cons_of_mem _ hu))
      (by intro u hu; rcases List.mem_cons.1 hu with e | e; exact e ▸ hxf; exact hd u e)
      (countObj_queue_from h0 P0 s x (fun z => (h.frame z).2) hxf hq)
    refine ⟨done', h1, fun u hu => h2 u (List.mem_cons_of_mem _ hu), ?_, h4, h5⟩
    intro u hu
    rcases List.mem_cons.1 hu with e | e
    · exact e ▸ h2 x (by simp)
    · exact h3 u e

theorem countQueue_P1x' (h0 : Heap) (L : Nat → Prop) (ctx : Ctx h0 L) (P0 : List Nat) (fuel : Nat) :
    ∀ (s : TS) (done : List Nat), P1x h0 L s done [] →
      (∀ u ∈ done, From h0 P0 u) → (∀ u ∈ s.queue, From h0 P0 u) →
      ∃ done', P1x h0 L (countQueue fuel s) done' [] ∧ (∀ u ∈ done, u ∈ done') ∧
        (∀ u ∈ done', From h0 P0 u) := by
  induction fuel with
  | zero => intro s done h hd _; exact ⟨done, h, fun u hu => hu, hd⟩
  | succ n ih =>
    intro s done h hd hq
    unfold countQueue
    cases hqq : s.queue with
    | nil => simp only []; exact ⟨done, h, fun u hu => hu, hd⟩
    | cons x q =>
      simp only []
      have hxf := hq x (by simp [hqq])
      obtain ⟨done', h1, h2, h3⟩ := ih _ (x :: done) (step_queue h0 L ctx s done x q [] hqq h)
        (by intro u hu; rcases List.mem_cons.1 hu with e | e; exact e ▸ hxf; exact hd u e)
        (countObj_queue_from h0 P0 { s with queue := q } x (fun z => (h.frame z).2) hxf
          (fun u hu => hq u (by rw [hqq]; exact List.mem_cons_of_mem _ hu)))
      exact ⟨done', h1, fun u hu => h2 u (List.mem_cons_of_mem _ hu), h3⟩

theorem mem_le_sum (f : Nat → Nat) (l : List Nat) (u : Nat) (hu : u ∈ l) : f u ≤ (l.map f).sum := by
  induction l with
  | nil => cases hu
  | cons a l ih =>
    simp only [List.map_cons, List.sum_cons]
    rcases List.mem_cons.1 hu with e | e
    · subst e; omega
    · have := ih e; omega

/-- At the end of a drained counting phase the finished set is closed under traced fields. -/
theorem done_closed (s1 : TS) (done : List Nat) (hinv : P1 s1 done none [] []) (hq : s1.queue = []) :
    ∀ u ∈ done, ∀ y ∈ (s1.h u).edges, y ∈ done := by
  intro u hu y hy
  have hpos : 0 < inCount s1.h done y := by
    unfold inCount
    have : 0 < (s1.h u).edges.count y := List.count_pos_iff.2 hy
    have hle : (s1.h u).edges.count y ≤ (done.map fun u => (s1.h u).edges.count y).sum :=
      mem_le_sum (fun u => (s1.h u).edges.count y) done u hu
    omega
  have hne : (s1.h y).mark ≠ .non := fun h => by have := hinv.unseen y h; simp at this; omega
  cases hm : (s1.h y).mark with
  | non => exact absurd hm hne
  | pc => have := (hinv.mPc y).1 hm; simp at this
  | inQueue => have := (hinv.mQueue y).1 hm; simp [hq] at this
  | inList => exact (hinv.mList y).1 hm

end T1
