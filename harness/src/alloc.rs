//! Instrumented global allocator: while a tracker is installed on the current thread every
//! allocation is recorded (address, size, alignment), every deallocation is checked against its
//! record and *quarantined* (the memory is not handed back until the program ends, so a
//! use-after-free reads stale bytes instead of someone else's data; released weak side records are
//! additionally poisoned), and deallocations of tagged
//! blocks (object boxes, weak side records) are reported as events.

use std::alloc::{GlobalAlloc, Layout, System};
use std::cell::Cell;
use std::collections::HashMap;

#[derive(Clone, Copy, Debug, PartialEq, Eq)]
pub enum Tag {
    None,
    Box(usize),  // object id
    Meta(usize), // side record of object id
}

#[derive(Clone, Copy, Debug)]
pub struct Block {
    pub size: usize,
    pub align: usize,
    pub live: bool,
    pub tag: Tag,
}

pub struct Tracker {
    pub blocks: HashMap<usize, Block>,
    pub quarantine: Vec<(usize, Layout)>,
    /// Event log of the running program (shared with the interpreter so that ordering is global).
    pub events: Vec<String>,
    /// while set: addresses of the blocks allocated with this size (to attribute transient allocations of the crate)
    pub watch_size: Option<usize>,
    pub watched: Vec<usize>,
}

impl Tracker {
    pub fn new() -> Tracker {
        Tracker { blocks: HashMap::new(), quarantine: Vec::new(), events: Vec::new(), watch_size: None, watched: Vec::new() }
    }
}

thread_local! {
    static TRACKER: Cell<*mut Tracker> = const { Cell::new(std::ptr::null_mut()) };
    static BYPASS: Cell<bool> = const { Cell::new(false) };
}

pub struct Instrumented;

/// Runs `f` with allocation tracking suspended (for the tracker's and the harness' own bookkeeping).
pub fn bypass<R>(f: impl FnOnce() -> R) -> R {
    let old = BYPASS.with(|b| b.replace(true));
    struct Restore(bool);
    impl Drop for Restore {
        fn drop(&mut self) {
            BYPASS.with(|b| b.set(self.0));
        }
    }
    let _r = Restore(old);
    f()
}

/// Access to the tracker of the current thread, with tracking suspended.
pub fn with_tracker<R>(f: impl FnOnce(&mut Tracker) -> R) -> Option<R> {
    let ptr = TRACKER.with(|t| t.get());
    if ptr.is_null() {
        None
    } else {
        Some(bypass(|| f(unsafe { &mut *ptr })))
    }
}

pub fn install() {
    bypass(|| {
        let b = Box::new(Tracker::new());
        TRACKER.with(|t| t.set(Box::into_raw(b)));
    })
}

/// Removes the tracker from the current thread.
pub fn take() -> usize {
    TRACKER.with(|t| t.replace(std::ptr::null_mut())) as usize
}

/// Really frees everything quarantined by a tracker taken from a thread that has exited.
pub fn release(tracker: usize) {
    let ptr = tracker as *mut Tracker;
    if !ptr.is_null() {
        let tracker = unsafe { Box::from_raw(ptr) };
        for (addr, layout) in tracker.quarantine.iter() {
            unsafe { System.dealloc(*addr as *mut u8, *layout) };
        }
    }
}

pub fn log_event(args: std::fmt::Arguments<'_>) {
    with_tracker(|t| t.events.push(std::fmt::format(args)));
}

#[macro_export]
macro_rules! ev {
    ($($arg:tt)*) => { $crate::alloc::log_event(format_args!($($arg)*)) };
}

unsafe impl GlobalAlloc for Instrumented {
    unsafe fn alloc(&self, layout: Layout) -> *mut u8 {
        let p = System.alloc(layout);
        if p.is_null() {
            return p;
        }
        let tracking = TRACKER.try_with(|t| !t.get().is_null()).unwrap_or(false)
            && !BYPASS.try_with(|b| b.get()).unwrap_or(true);
        if tracking {
            with_tracker(|t| {
                t.blocks.insert(p as usize, Block { size: layout.size(), align: layout.align(), live: true, tag: Tag::None });
                if t.watch_size == Some(layout.size()) {
                    t.watched.push(p as usize);
                }
            });
        }
        p
    }

    unsafe fn dealloc(&self, ptr: *mut u8, layout: Layout) {
        let tracking = TRACKER.try_with(|t| !t.get().is_null()).unwrap_or(false)
            && !BYPASS.try_with(|b| b.get()).unwrap_or(true);
        if !tracking {
            // Either no program is running or this is bookkeeping memory: forget any record of it
            // (the address may be reused) and release it for real.
            if TRACKER.try_with(|t| !t.get().is_null()).unwrap_or(false) {
                with_tracker(|t| {
                    t.blocks.remove(&(ptr as usize));
                });
            }
            System.dealloc(ptr, layout);
            return;
        }
        let known = with_tracker(|t| {
            let addr = ptr as usize;
            match t.blocks.get_mut(&addr) {
                Some(b) => {
                    let tag = b.tag;
                    let name = |tag: Tag| match tag {
                        Tag::Box(id) => format!("{}", id),
                        Tag::Meta(id) => format!("m{}", id),
                        Tag::None => format!("?{}", layout.size()),
                    };
                    if !b.live {
                        t.events.push(format!("!dfree:{}", name(tag)));
                        return true;
                    }
                    if b.size != layout.size() || b.align != layout.align() {
                        t.events.push(format!("!layout:{}:{}/{}vs{}/{}", name(tag), layout.size(), layout.align(), b.size, b.align));
                    }
                    b.live = false;
                    match tag {
                        Tag::Box(id) => t.events.push(format!("X{}", id)),
                        Tag::Meta(id) => t.events.push(format!("M{}", id)),
                        Tag::None => {}
                    }
                    // quarantine with the layout it was allocated with
                    let l = Layout::from_size_align(b.size, b.align).unwrap();
                    t.quarantine.push((addr, l));
                    // A released side record is poisoned: the harness never reads it, so whoever still reads it (a
                    // `Weak` query after a premature release, a layout read after `drop_metadata`) gets an
                    // unmistakably wrong answer or faults instead of a plausible stale one. Object boxes are not
                    // poisoned: the oracles read canaries of quarantined boxes.
                    if let Tag::Meta(_) = tag {
                        unsafe { std::ptr::write_bytes(addr as *mut u8, 0xA5, b.size) };
                    }
                    true
                }
                None => false,
            }
        })
        .unwrap_or(false);
        if !known {
            // allocated before the tracker was installed or while bypassed
            System.dealloc(ptr, layout);
        }
    }
}

/// Looks up the block starting at `addr`.
pub fn block_at(addr: usize) -> Option<Block> {
    with_tracker(|t| t.blocks.get(&addr).copied()).flatten()
}

pub fn set_tag(addr: usize, tag: Tag) -> bool {
    with_tracker(|t| match t.blocks.get_mut(&addr) {
        Some(b) => {
            b.tag = tag;
            true
        }
        None => false,
    })
    .unwrap_or(false)
}

pub fn is_live(addr: usize) -> bool {
    block_at(addr).map(|b| b.live).unwrap_or(false)
}

/// Size of the box of the crate's private `CleanerMap` (measured once at start-up, 0 if unknown).
pub static MAP_BOX_SIZE: std::sync::atomic::AtomicUsize = std::sync::atomic::AtomicUsize::new(0);
