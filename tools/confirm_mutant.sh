#!/bin/bash
# confirm_mutant.sh <ID>: confirms, in the sub-agent's scratch worktree, that the change compiles, passes the
# pinned suite, and that the demonstration fails with it and passes without it. Writes /tmp/wt/<ID>_out/confirm.txt
ID=$1
WT=/tmp/wt/$ID
OUT=/tmp/wt/${ID}_out
FEAT=$(python3 -c "import json;print(json.load(open('$OUT/meta.json')).get('features',''))" 2>/dev/null | grep -o 'weak-ptrs\|cleaners\|finalization\|auto-collect\|derive' | sort -u | paste -sd, -)
FF=""
[ -n "$FEAT" ] && FF="--features $FEAT"
cd $WT || exit 1
git checkout -q -- . ; git clean -qfd tests 2>/dev/null
cp $OUT/demo_$ID.rs tests/demo_$ID.rs
{
echo "== features: $FF"
echo "== demo WITHOUT patch"
timeout 900 cargo test --offline $FF --test demo_$ID 2>&1 | grep -E "^test result|panicked|error" | head -5
git apply $OUT/patch.diff && echo "== patch applied"
echo "== demo WITH patch"
timeout 900 cargo test --offline $FF --test demo_$ID 2>&1 | grep -E "^test result|panicked|error|signal" | head -5
echo "== pinned suite WITH patch"
mv tests/demo_$ID.rs /tmp/wt/demo_$ID.rs.keep
timeout 1800 cargo nextest run --workspace --no-fail-fast --offline 2>&1 | grep -E "Summary|FAIL \[" | head -5
echo "== build all features WITH patch"
cargo build --offline --features weak-ptrs,cleaners 2>&1 | grep -E "^error|Finished" | head -3
git checkout -q -- .
} > $OUT/confirm.txt 2>&1
cat $OUT/confirm.txt
