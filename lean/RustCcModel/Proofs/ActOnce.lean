import RustCcModel.Proofs.ActDefs
/-! **Each registered cleaning action runs at most once** — every history of the running machine. -/
namespace RustCc
open World
open T1 (Mark)

macro "act_same" : tactic => `(tactic| (
  refine ⟨none, none, ActEff.same ?_ ?_ ?_⟩
  · simp [putH_nextAid, foldl_free_nextAid, World.setH, World.setW, World.setK, World.startCollect, World.emit, World.push, World.upd,
      World.updMeta]
  · intro m
    simp [upd_sm_same, updAll_sm_same, putH_sm, foldl_free_sm, World.setH, World.setW, World.setK, World.startCollect, World.emit,
      World.push, World.updMeta]
  · simp [freeBox_events, putH_events, foldl_free_aEv, World.setH, World.setW, World.setK, World.push, World.emit, World.upd,
      World.updMeta]))

theorem slotAt_upd_other (w : World) (t : Id) (g : Obj → Obj) (m : Id) (i : Nat) (h : m ≠ t) :
    slotAt (w.upd t g) m i = slotAt w m i := by
  unfold slotAt; simp [World.upd, Heap.set, h]

/-- Taking the action out of slot `i` of map `mm` and running it (`Cleanable::clean`, the map's drop glue). -/
theorem ActEff.take {w W' : World} (mm : Id) (i : Nat) (a : Action) (hslot : slotAt w mm i = some a)
    (hn : W'.nextAid = w.nextAid)
    (hs : ∀ m j, slotAt W' m j = if m = mm ∧ j = i then none else slotAt w m j)
    (he : aEv W'.events = aEv w.events ++ [a.aid]) : ActEff w W' none (some (mm, i, a)) := by
  refine ⟨Nat.le_of_eq hn.symm, ?_, by simpa [runAids] using he, ?_⟩
  · intro m j b hb
    rw [hs] at hb
    split at hb
    · cases hb
    · exact Or.inl hb
  · intro m j b hr
    cases hr
    exact ⟨hslot, by rw [hs]; simp⟩

theorem slotAt_set_none (w : World) (mm : Id) (i : Nat) (G : Obj → Obj)
    (hG : ∀ o, (G o).sm.1 = o.sm.1.set i none) (m : Id) (j : Nat) :
    slotAt (w.upd mm G) m j = if m = mm ∧ j = i then none else slotAt w m j := by
  unfold slotAt
  by_cases e : m = mm
  · subst e
    simp only [World.upd_heap_same, hG]
    by_cases e2 : j = i
    · subst e2; simp [List.getD_eq_getElem?_getD, List.getElem?_set]; split <;> rfl
    · have := getD_set_ne (w.heap m).sm.1 i j none e2
      simp only [e2, and_false, if_false]; exact this
  · simp [World.upd, Heap.set, e]

set_option maxHeartbeats 16000000 in
theorem execOp_act (c : Cfg) (w : World) (self wc : Option Id) (op : Op) :
    ∃ pos run, ActEff w (execOp c w self wc op) pos run := by
  cases op with
  | fault kind n j => cases kind <;> exact ⟨none, none, ActEff.same rfl (fun _ => rfl) rfl⟩
  | clean k =>
    simp only [execOp]
    have hbase : ∀ W : World, (∃ p r, ActEff w W p r) → True := fun _ _ => trivial
    generalize hw1 : ({ w with ret := Ret.ok } : World) = w1
    have e1 : w1.nextAid = w.nextAid ∧ (∀ m, (w1.heap m).sm = (w.heap m).sm) ∧ w1.events = w.events := by
      subst hw1; exact ⟨rfl, fun _ => rfl, rfl⟩
    split
    · act_same
    · split
      · rename_i mm i aid hk
        split
        · subst hw1; act_same
        · split
          · subst hw1; act_same
          · split
            · subst hw1; act_same
            · split
              · rename_i a ha
                split
                · -- the action is taken out and run
                  have hslot : slotAt w mm i = some a := by
                    unfold slotAt
                    have : (((w1.cloneOk mm).upd mm fun o => { o with borrowed := true }).heap mm).sm.1.getD i none = some a := by
                      simpa [World.push, Obj.sm] using ha
                    simp only [upd_sm_same _ _ (fun o : Obj => { o with borrowed := true }) _ (fun _ => ⟨rfl, rfl⟩), cloneOk_sm, e1.2.1] at this
                    exact this
                  have hsl : ∀ (W : World), (∀ m, (W.heap m).sm = (w.heap m).sm) → ∀ m j,
                      slotAt (W.upd mm fun o => { o with aslots := o.aslots.set i none, afree := i :: o.afree }) m j =
                        if m = mm ∧ j = i then none else slotAt w m j := by
                    intro W hW m j
                    rw [slotAt_set_none W mm i _ (fun o => rfl)]
                    unfold slotAt; rw [hW]
                  have hW0 : ∀ m, ((((w1.cloneOk mm).upd mm fun o => { o with borrowed := true }).push (.cleanEnd mm true false)).heap m).sm = (w.heap m).sm := by
                    intro m
                    simp [World.push, upd_sm_same, e1.2.1]
                  split
                  · refine ⟨none, some (mm, i, a), ActEff.take mm i a hslot ?_ ?_ ?_⟩
                    · simp [World.push, World.emit, World.upd, e1.1]
                    · intro m j
                      have := hsl _ hW0 m j
                      simpa [slotAt, World.push, World.emit] using this
                    · simp [World.push, World.emit, World.upd, e1.2.2]
                  · refine ⟨none, some (mm, i, a), ActEff.take mm i a hslot ?_ ?_ ?_⟩
                    · simp [World.push, World.emit, World.upd, e1.1]
                    · intro m j
                      have := hsl _ hW0 m j
                      simpa [slotAt, World.push, World.emit] using this
                    · simp [World.push, World.emit, World.upd, e1.2.2]
                · subst hw1; act_same
              · subst hw1; act_same
      · act_same
  | _ =>
    simp only [execOp]
    repeat' split
    all_goals act_same

theorem ActEff.congrL {w w0 W' : World} {pos run} (h : ActEff w0 W' pos run) (hn : w0.nextAid = w.nextAid)
    (hs : ∀ m, (w0.heap m).sm = (w.heap m).sm) (he : w0.events = w.events) : ActEff w W' pos run := by
  refine ⟨by rw [← hn]; exact h.next, ?_, by rw [← he]; exact h.ev, ?_⟩
  · intro m i a ha
    rcases h.slots m i a ha with h1 | h1
    · exact Or.inl (by unfold slotAt at h1 ⊢; rw [← hs m]; exact h1)
    · rw [hn] at h1; exact Or.inr h1
  · intro m i a hr
    have := h.ran m i a hr
    exact ⟨by unfold slotAt at this ⊢; rw [← hs m]; exact this.1, this.2⟩

theorem slotAt_alloc_other (w : World) (o : Obj) (ab : Nat) (m : Id) (i : Nat) (ho : o.aslots = []) :
    ∀ a, slotAt ({ w with next := w.next + 1, heap := w.heap.set w.next o, allocBytes := ab } : World) m i = some a → slotAt w m i = some a := by
  intro a ha
  unfold slotAt at ha ⊢
  by_cases e : m = w.next
  · subst e; simp [Heap.set, Obj.sm, ho] at ha
  · simpa [Heap.set, e] using ha

set_option maxHeartbeats 16000000 in
theorem stepFrame_act (c : Cfg) (w : World) (f : Frame) : ∃ pos run, ActEff w (stepFrame c w f) pos run := by
  cases f with
  | script ops self wc top =>
    cases ops with
    | nil => simp only [stepFrame]; exact ⟨none, none, ActEff.same rfl (fun _ => rfl) rfl⟩
    | cons op ops =>
      simp only [stepFrame]
      obtain ⟨pos, run, h⟩ := execOp_act c (w.push (.script ops self wc top)) self wc op
      have h' := h.congrL (w := w) rfl (fun _ => rfl) rfl
      split
      · exact ⟨pos, run, h'⟩
      · exact ⟨pos, run, ⟨h'.next, h'.slots, h'.ev, h'.ran⟩⟩
  | collectPass =>
    simp only [stepFrame, startDealloc]
    generalize tracePhasesF _ _ _ _ _ = r
    obtain ⟨res, fault⟩ := r
    cases res <;> simp only [] <;> repeat' split
    all_goals act_same
  | deallocDrop N r oD =>
    cases r with
    | cons x r => simp only [stepFrame]; repeat' split
                  all_goals act_same
    | nil =>
      simp only [stepFrame]
      split
      · act_same
      · exact ⟨none, none, ActEff.same (by simp [foldl_free_nextAid]) (fun m => by simp [foldl_free_sm]) (by simp [foldl_free_aEv])⟩
  | dropFields x unw =>
    simp only [stepFrame]
    have ht := takeField_sm (w.heap x)
    split
    · rename_i y o' hy
      rw [hy] at ht
      have ht' : o'.sm = (w.heap x).sm := ht
      refine ⟨none, none, ActEff.same (by simp [World.push, World.upd]) (fun m => ?_) (by simp [World.push, World.upd])⟩
      by_cases e : m = x
      · subst e; simp [World.push, ht']
      · simp [World.push, World.upd, Heap.set, e]
    · rename_i y o' hy
      rw [hy] at ht
      have ht' : o'.sm = (w.heap x).sm := ht
      refine ⟨none, none, ActEff.same (by simp [World.push, World.upd]) (fun m => ?_) (by simp [World.push, World.upd])⟩
      rw [weakDrop_sm]
      by_cases e : m = x
      · subst e; simp [World.push, ht']
      · simp [World.push, World.upd, Heap.set, e]
    · split <;> exact ⟨none, none, ActEff.same rfl (fun _ => rfl) rfl⟩
  | dropActions m i unw =>
    simp only [stepFrame]
    split
    · split
      · rename_i a ha
        have hslot : slotAt w m i = some a := by unfold slotAt; simpa [World.push, Obj.sm] using ha
        have hsl : ∀ m' j, slotAt ((w.push (.dropActions m (i + 1) unw)).upd m fun o => { o with aslots := o.aslots.set i none }) m' j =
            if m' = m ∧ j = i then none else slotAt w m' j := by
          intro m' j
          rw [slotAt_set_none _ m i _ (fun o => rfl)]
          rfl
        split
        · refine ⟨none, some (m, i, a), ActEff.take m i a hslot (by simp [World.push, World.emit, World.upd]) ?_ (by simp [World.push, World.emit, World.upd])⟩
          intro m' j
          have := hsl m' j
          simpa [slotAt, World.push, World.emit] using this
        · refine ⟨none, some (m, i, a), ActEff.take m i a hslot (by simp [World.push, World.emit, World.upd]) ?_ (by simp [World.push, World.emit, World.upd])⟩
          intro m' j
          have := hsl m' j
          simpa [slotAt, World.push, World.emit] using this
      · act_same
    · split <;> exact ⟨none, none, ActEff.same rfl (fun _ => rfl) rfl⟩
  | regInsert owner script k cap =>
    simp only [stepFrame]
    split
    · exact ⟨none, none, ActEff.same rfl (fun _ => rfl) rfl⟩
    · split
      · act_same
      · rename_i m hm hb
        -- the new action goes to slot `idx` of map `m`
        have hgen : ∀ (idx : Nat) (om' : Obj),
            (∀ j b, om'.sm.1.getD j none = some b → (w.heap m).sm.1.getD j none = some b ∨ (j = idx ∧ b.aid = w.nextAid)) →
            ∃ pos run, ActEff w
              (if (((({ w with nextAid := w.nextAid + 1 } : World).upd m fun _ => om').initMeta m).metas m).weak ≥ c.weakMax then
                ((({ w with nextAid := w.nextAid + 1 } : World).upd m fun _ => om').initMeta m).raise
              else ((((({ w with nextAid := w.nextAid + 1 } : World).upd m fun _ => om').initMeta m).updMeta m
                fun mm => { mm with weak := mm.weak + 1 }).removeFromList m).setK k (some (m, idx, w.nextAid))) pos run := by
          intro idx om' hom
          have key : ∀ W : World, W.nextAid = w.nextAid + 1 → (∀ m', (W.heap m').sm = ((({ w with nextAid := w.nextAid + 1 } : World).upd m fun _ => om').heap m').sm) →
              aEv W.events = aEv w.events → ActEff w W (some (m, idx)) none := by
            intro W hn hs he
            refine ⟨by omega, ?_, by simpa [runAids] using he, fun _ _ _ h => nomatch h⟩
            intro m' j b hb
            unfold slotAt at hb ⊢
            rw [hs] at hb
            by_cases e : m' = m
            · subst e
              simp only [World.upd_heap_same] at hb
              rcases hom j b hb with h1 | ⟨h1, h2⟩
              · exact Or.inl h1
              · subst h1; exact Or.inr ⟨rfl, h2, by omega⟩
            · exact Or.inl (by simpa [World.upd, Heap.set, e] using hb)
          split
          · exact ⟨_, _, key _ (by simp [World.upd]) (fun m' => by simp) (by simp)⟩
          · exact ⟨_, _, key _ (by simp [World.setK, World.updMeta, World.upd]) (fun m' => by simp [World.setK, World.updMeta]) (by simp [World.setK, World.updMeta])⟩
        cases hfr : (w.heap m).afree with
        | nil =>
          simp only []
          refine hgen _ _ ?_
          intro j b hb
          simp only [Obj.sm] at hb ⊢
          by_cases e : j < (w.heap m).aslots.length
          · left; simpa [List.getD_eq_getElem?_getD, List.getElem?_append_left e] using hb
          · right
            have hge : (w.heap m).aslots.length ≤ j := Nat.le_of_not_lt e
            simp only [List.getD_eq_getElem?_getD, List.getElem?_append_right hge] at hb
            cases hj : j - (w.heap m).aslots.length with
            | zero => simp [hj] at hb; exact ⟨by omega, by rw [← hb]⟩
            | succ n => simp [hj] at hb
        | cons i fr =>
          simp only []
          refine hgen _ _ ?_
          intro j b hb
          simp only [Obj.sm] at hb ⊢
          by_cases e : j = i
          · subst e
            right
            simp only [List.getD_eq_getElem?_getD, List.getElem?_set] at hb
            split at hb
            · split at hb
              · simp at hb; exact ⟨rfl, by rw [← hb]⟩
              · simp at hb
            · rename_i hne; exact absurd trivial hne
          · left; rw [getD_set_ne _ _ _ _ e] at hb; exact hb
  | newAlloc k sp =>
    simp only [stepFrame]
    refine ⟨none, none, by simp [putH_nextAid, World.emit], ?_, by simp [putH_events, World.emit], fun _ _ _ h => nomatch h⟩
    intro m i a ha
    left
    have : slotAt ({ w with next := w.next + 1, heap := w.heap.set w.next (newObj c w sp), allocBytes := w.allocBytes + (newObj c w sp).size } : World) m i = some a := by
      unfold slotAt at ha ⊢; rw [putH_sm] at ha; simpa [World.emit] using ha
    exact slotAt_alloc_other w _ _ m i rfl a this
  | newCyclicAlloc k sp body selfw =>
    simp only [stepFrame]
    split
    · refine ⟨none, none, by simp [World.emit, World.push, World.updMeta], ?_, by simp [World.emit, World.push, World.updMeta], fun _ _ _ h => nomatch h⟩
      intro m i a ha
      left
      exact slotAt_alloc_other w { newObj c w sp with rc := 0, valLive := false, hasMeta := true } (w.allocBytes + (newObj c w sp).size) m i rfl a
        (by unfold slotAt at ha ⊢; simpa [World.emit, World.push, World.updMeta] using ha)
    · refine ⟨none, none, by simp [World.emit, World.push, World.updMeta], ?_, by simp [World.emit, World.push, World.updMeta], fun _ _ _ h => nomatch h⟩
      intro m i a ha
      left
      exact slotAt_alloc_other w { newObj c w sp with rc := 0, valLive := false, hasMeta := true } (w.allocBytes + (newObj c w sp).size) m i rfl a
        (by unfold slotAt at ha ⊢; simpa [World.emit, World.push, World.updMeta] using ha)
  | mapAlloc owner =>
    simp only [stepFrame]
    split
    · refine ⟨none, none, by simp [World.emit, World.upd], ?_, by simp [World.emit, World.upd], fun _ _ _ h => nomatch h⟩
      intro m i a ha
      left
      refine slotAt_alloc_other w ({ rc := 1, tc := c.tcInit, boxLive := true, valLive := true, kind := .map, size := c.mapSize, finalized := c.fin && w.finalizing } : Obj) (w.allocBytes + c.mapSize) m i rfl a ?_
      unfold slotAt at ha ⊢
      simp only [upd_sm_same _ _ (fun o : Obj => { o with cmap := some w.next }) _ (fun _ => ⟨rfl, rfl⟩)] at ha
      simpa [World.emit] using ha
    · refine ⟨none, none, by simp [World.emit, World.push], ?_, by simp [World.emit, World.push], fun _ _ _ h => nomatch h⟩
      intro m i a ha
      left
      exact slotAt_alloc_other w ({ rc := 1, tc := c.tcInit, boxLive := true, valLive := true, kind := .map, size := c.mapSize, finalized := c.fin && w.finalizing } : Obj) (w.allocBytes + c.mapSize) m i rfl a
        (by unfold slotAt at ha ⊢; simpa [World.emit, World.push] using ha)
  | _ =>
    simp only [stepFrame, destroyLast, startDealloc]
    repeat' split
    all_goals act_same

/-! ### Histories -/

theorem step_act (c : Cfg) (w : World) (hm : w.mode = .running) : ∃ pos run, ActEff w (step c w) pos run := by
  cases hs : w.stack with
  | nil =>
    have e : step c w = w := by unfold step; rw [hm]; simp only []; rw [hs]
    rw [e]; exact ⟨none, none, ActEff.same rfl (fun _ => rfl) rfl⟩
  | cons f rest =>
    have e : step c w = stepFrame c { w with stack := rest } f := by unfold step; rw [hm]; simp only []; rw [hs]
    rw [e]
    obtain ⟨pos, run, h⟩ := stepFrame_act c { w with stack := rest } f
    exact ⟨pos, run, h.congrL rfl (fun _ => rfl) rfl⟩

theorem init_aOk (c : Cfg) (nH nW nK : Nat) : AOk (World.init c nH nW nK) := by
  refine ⟨?_, ?_⟩ <;> intro m i a <;> simp [slotAt, World.init, Obj.sm]

/-- What the log of a history says about the action with identifier `aid`. -/
structure ActOk (w : World) (log : List Event) (aid : Nat) : Prop where
  once : (aEv log).count aid ≤ 1
  gone : aid ∈ aEv log → aid < w.nextAid ∧ ∀ m i a, slotAt w m i = some a → a.aid ≠ aid

theorem histR_actOk (c : Cfg) (nH nW nK : Nat) (w : World) (log : List Event) (h : HistR c nH nW nK w log) (aid : Nat) :
    AOk w ∧ ActOk w log aid := by
  induction h with
  | init => exact ⟨init_aOk c nH nW nK, by simp, fun h => by simp at h⟩
  | top w op log _ hs hm ih => exact ⟨⟨ih.1.lt, ih.1.uniq⟩, ih.2.once, ih.2.gone⟩
  | step w log _ hm ih =>
    obtain ⟨hok, hact⟩ := ih
    obtain ⟨pos, run, he⟩ := step_act c w hm
    have hok' := hok.step he
    -- the action events of the step
    have hev : aEv (newEvents w (step c w)) = runAids run := by
      have h1 := he.ev
      rw [step_events_eq c w, aEv_append] at h1
      exact List.append_cancel_left h1
    refine ⟨hok', ?_, ?_⟩
    · rw [aEv_append, List.count_append, hev]
      cases run with
      | none => simpa [runAids] using hact.once
      | some r =>
        obtain ⟨m, i, a⟩ := r
        simp only [runAids]
        by_cases e : a.aid = aid
        · have hslot := (he.ran m i a rfl).1
          have hnot : aid ∉ aEv log := fun hin => (hact.gone hin).2 m i a hslot e
          simp [List.count_eq_zero.2 hnot, e]
        · have : [a.aid].count aid = 0 := by simp [List.count_cons, e]
          simp only [this]; simpa using hact.once
    · intro hin
      rw [aEv_append, List.mem_append] at hin
      -- either it ran before, or it runs now
      have hlt : aid < w.nextAid := by
        rcases hin with h1 | h1
        · exact (hact.gone h1).1
        · rw [hev] at h1
          cases run with
          | none => simp [runAids] at h1
          | some r =>
            obtain ⟨m, i, a⟩ := r
            simp [runAids] at h1; subst h1
            exact hok.lt m i a (he.ran m i a rfl).1
      refine ⟨Nat.lt_of_lt_of_le hlt he.next, ?_⟩
      intro m' j b hb hbe
      rcases he.slots m' j b hb with g1 | ⟨_, g2, _⟩
      · rcases hin with h1 | h1
        · exact (hact.gone h1).2 m' j b g1 hbe
        · rw [hev] at h1
          cases run with
          | none => simp [runAids] at h1
          | some r =>
            obtain ⟨m, i, a⟩ := r
            simp [runAids] at h1
            have hr := he.ran m i a rfl
            have := hok.uniq m' j b m i a g1 hr.1 (by rw [hbe, h1])
            obtain ⟨rfl, rfl⟩ := this
            rw [hr.2] at hb; cases hb
      · omega

end RustCc
