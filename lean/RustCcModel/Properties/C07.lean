import RustCcModel.Proofs.FlagsStep
import RustCcModel.Proofs.InvReach
/-! # C07 — panics from user callbacks are contained at every crash point

The invariant "the flags are the stack" (`FlagsOk`) is preserved by *every* micro-step of the machine,
in running and in unwinding mode, for every program, every callback script and every fault plan
(any callback invocation of any kind may panic, any number of times in successive operations).
Consequence: whenever the machine is idle — in particular after a panic was caught at the API
boundary — the collector is idle and usable. -/
namespace RustCc.C07
open World

/-- Every micro-step (normal or unwinding) preserves the flags invariant. -/
theorem flags_invariant (c : Cfg) (w : World) (h : FlagsOk w) : FlagsOk (step c w) := step_flagsOk c w h

/-- After any history, an idle machine has `collecting = finalizing = dropping = false`. -/
theorem idle_after_any_history (c : Cfg) (nH nW nK : Nat) (w : World) (h : Reachable c nH nW nK w)
    (hs : w.stack = []) : w.collecting = false ∧ w.finalizing = false ∧ w.dropping = false :=
  idle_flags c nH nW nK w h hs

/-- … hence `is_tracing()` is false … -/
theorem idle_not_tracing (c : Cfg) (nH nW nK : Nat) (w : World) (h : Reachable c nH nW nK w)
    (hs : w.stack = []) : w.isTracing c = false := by
  obtain ⟨h1, _, _⟩ := idle_flags c nH nW nK w h hs
  unfold isTracing; simp [h1]

/-- … and a later collection can start: `collect_cycles()` on an idle machine begins a collection. -/
theorem idle_can_collect (c : Cfg) (nH nW nK : Nat) (w : World) (h : Reachable c nH nW nK w)
    (hs : w.stack = []) (self wc : Option Id) :
    (execOp c w self wc .collect).collecting = true ∧ (execOp c w self wc .collect).execs = w.execs + 1 := by
  obtain ⟨h1, _, _⟩ := idle_flags c nH nW nK w h hs
  simp only [execOp, h1]
  by_cases ha : c.auto = true <;> simp [ha, startCollect, push, emit]

/-- The panic propagates to the caller of the API: unwinding stops exactly at the `catch_unwind` of
the top-level operation, which reports `panic`. -/
theorem panic_reaches_api_boundary (c : Cfg) (w : World) :
    (unwindFrame c w .catchTop).mode = .running ∧ (unwindFrame c w .catchTop).ret = .panic := by
  simp [unwindFrame]

/-- Script frames (user code) hold no collector state: unwinding through them changes nothing. -/
theorem unwind_through_script (c : Cfg) (w : World) (ops : List Op) (self wc : Option Id) (top : Bool) :
    unwindFrame c w (.script ops self wc top) = w := by
  simp [unwindFrame]

/-- Non-vacuity: the initial world is reachable and idle. -/
example (c : Cfg) : Reachable c 6 4 4 (World.init c 6 4 4) ∧ (World.init c 6 4 4).stack = [] :=
  ⟨.init, rfl⟩

/-- **Whatever panicked, the marks are clean once the machine is idle again**: in every reachable world with an empty stack
— after any history of caught panics at any callback — every object is either not marked, or marked "possible cycle" and then
it is in the buffer exactly once with its tracing counter reset; no object is left marked as member of a collector list or
queue (which would make every later `Cc::drop` on it take the collector's "only decrement" path), the buffer has no
duplicates, and a released box carries no mark and no count. This is the state the next collection — and every `Cc::drop`
before it — interprets. -/
theorem idle_marks_clean (c : Cfg) (nH nW nK : Nat) (w : World) (h : Reachable c nH nW nK w) (hs : w.stack = []) :
    w.pc.Nodup ∧ ∀ x,
      ((w.heap x).mark = .non ∨ ((w.heap x).mark = .pc ∧ x ∈ w.pc ∧ (w.heap x).tc = 0)) ∧
      ((w.heap x).boxLive = false → (w.heap x).rc = 0 ∧ (w.heap x).mark = .non) := by
  have hi := (reachable_all c nH nW nK w h).inv.oi
  refine ⟨hi.pcNodup, fun x => ⟨?_, fun hb => hi.dead x hb⟩⟩
  cases hm : (w.heap x).mark with
  | non => exact Or.inl rfl
  | pc =>
    have hx : x ∈ w.pc := (hi.mPc x).1 hm
    exact Or.inr ⟨rfl, hx, hi.tc0 x hx⟩
  | inList =>
    have := (hi.mList x).1 hm
    rw [hs] at this; simp [listed] at this
  | inQueue => exact absurd hm (hi.noQueue x)

end RustCc.C07
