import RustCcModel.T1.Complete2
namespace T1

/-- T2. With fuel at least the number of live objects, one pass terminates with empty queues, and
there is a duplicate-free list `done` — the buffer's closure under traced fields — such that every
member whose only possible "roots" (members with more references than traced references from
`done`) do not reach it is in the final non-root list, i.e. is reclaimed. -/
theorem tracePhases_complete (h0 : Heap) (objs : List Nat) (ext : Nat → Nat) (P : List Nat) (fuel : Nat)
    (hex : Exact h0 objs ext)
    (hmark : ∀ x, ((h0 x).mark = .pc ↔ x ∈ P) ∧ ((h0 x).mark = .pc ∨ (h0 x).mark = .non))
    (htc : ∀ x ∈ P, (h0 x).tc = 0) (hPn : P.Nodup) (hPs : ∀ u ∈ P, u ∈ objs)
    (hfuel : objs.length ≤ fuel) :
    (countQueue fuel (countPC { h := h0 } P)).queue = [] ∧
    (tracePhases fuel h0 P).queue = [] ∧
    ∃ done : List Nat, done.Nodup ∧ (∀ p ∈ P, p ∈ done) ∧ (∀ u ∈ done, From h0 P u) ∧
      (∀ u ∈ done, ∀ y ∈ (h0 u).edges, y ∈ done) ∧
      ∀ x ∈ done, (¬ ∃ r ∈ done, (h0 r).rc ≠ inCount h0 done r ∧ EReach h0 r x) →
        x ∈ (tracePhases fuel h0 P).nonroot := by
  have ctx := ctx_of_exact h0 objs ext hex
  obtain ⟨d0, hd0, _, hPd0, hd0f, hq0f⟩ :=
    countPC_P1x' h0 _ ctx P P { h := h0 } [] (init_P1x h0 _ P hmark htc) hPn hPs
      (fun u hu => ⟨u, hu, .refl u⟩) (by simp) (by simp)
  obtain ⟨done, hd, hmono, hdf⟩ := countQueue_P1x' h0 _ ctx P fuel _ d0 hd0 hd0f hq0f
  have hq1 := countQueue_drains h0 objs ctx fuel _ d0 hd0 (by omega)
  generalize hs1 : countQueue fuel (countPC { h := h0 } P) = s1 at hd hq1
  have hi2 := init_P2 s1 done hd.inv hq1
  obtain ⟨V1, hv1, hV1r, hq1r, hmeas⟩ :=
    rootsList_P2' s1.h done s1.root s1.root { s1 with root := [] } [] hi2 (by simp)
      (by simp [hq1]) (fun u hu => ⟨u, hu, .refl u⟩)
  have hlen1 : s1.nonroot.length ≤ done.length :=
    hd.inv.nonrootNodup.length_le_of_subset (fun u hu => ((hd.inv.nonroot u).1 hu).1)
  have hlen2 : done.length ≤ objs.length := hd.doneNodup.length_le_of_subset hd.doneL
  have hq2 := rootsQueue_drains s1.h done fuel _ V1 hv1 (by
    rw [hmeas]; simp only [hq1, List.length_nil]; omega)
  obtain ⟨V, hv, hVr⟩ := rootsQueue_P2' s1.h done s1.root fuel _ V1 hv1 hV1r hq1r
  have hF : tracePhases fuel h0 P = rootsQueue fuel (rootsList { s1 with root := [] } s1.root) := by
    unfold tracePhases; simp only [hs1]
  rw [hF]
  refine ⟨hq1, hq2, done, hd.doneNodup, fun p hp => hmono p (hPd0 p hp), hdf, ?_, ?_⟩
  · intro u hu y hy
    exact done_closed s1 done hd.inv hq1 u hu y (by rw [(hd.frame u).2]; exact hy)
  · intro x hx hno
    rcases hv.cover x hx with h | h | h | h | h
    · exfalso
      obtain ⟨r, hr, hp⟩ := hVr x h
      have ⟨hrd, hrne⟩ := (hd.inv.root r).1 hr
      have hml : (s1.h r).mark ≠ .non := by rw [(hd.inv.mList r).2 hrd]; simp
      have htcr := hd.inv.tcMarked r hml
      simp only [List.count_nil, Nat.add_zero] at htcr
      rw [inCount_frame s1.h h0 done r hd.frame] at htcr
      apply hno
      refine ⟨r, hrd, ?_, EReach.congr (fun u => ((hd.frame u).2).symm ▸ rfl) hp⟩
      rw [← (hd.frame r).1, ← htcr]; exact hrne
    · simp at h
    · rw [hq2] at h; simp at h
    · simp at h
    · exact h

end T1

namespace T1

/-- T1 without side conditions on the queues: fuel = number of live objects is enough. -/
theorem tracePhases_safe_fuel (h0 : Heap) (objs : List Nat) (ext : Nat → Nat) (P : List Nat) (fuel : Nat)
    (hex : Exact h0 objs ext)
    (hmark : ∀ x, ((h0 x).mark = .pc ↔ x ∈ P) ∧ ((h0 x).mark = .pc ∨ (h0 x).mark = .non))
    (htc : ∀ x ∈ P, (h0 x).tc = 0) (hPn : P.Nodup) (hPs : ∀ u ∈ P, u ∈ objs)
    (hfuel : objs.length ≤ fuel) :
    ∀ x ∈ (tracePhases fuel h0 P).nonroot,
      ext x = 0 ∧ (∀ u ∈ objs, x ∉ (h0 u).uedges) ∧
      (∀ u ∈ objs, x ∈ (h0 u).edges → u ∈ (tracePhases fuel h0 P).nonroot) := by
  obtain ⟨hq1, hq2, _⟩ := tracePhases_complete h0 objs ext P fuel hex hmark htc hPn hPs hfuel
  exact tracePhases_safe h0 objs ext P fuel hex hmark htc hPn hPs hq1 hq2

end T1
