#!/usr/bin/env python3
"""run_seeded.py <seeded dir> <prop> [<prop>...]: applies seeded/<dir>/patch.diff to /repo, runs `./check <prop> quick`
for each property, records which ones report a VIOLATION, and restores /repo (git checkout -- .) whatever happens."""
import json
import os
import subprocess
import sys
import time

VERIF = os.path.dirname(os.path.dirname(os.path.abspath(__file__)))


def main():
    d = sys.argv[1]
    props = sys.argv[2:]
    patch = os.path.join(VERIF, "seeded", d, "patch.diff")
    st = subprocess.run(["git", "-C", "/repo", "status", "--porcelain", "--untracked-files=no"], capture_output=True, text=True).stdout.strip()
    if st:
        print("refusing: /repo has local changes:\n" + st)
        return 2
    res = {}
    try:
        a = subprocess.run(["git", "-C", "/repo", "apply", patch], capture_output=True, text=True)
        if a.returncode != 0:
            print("patch does not apply:", a.stderr)
            return 2
        for p in props:
            t0 = time.time()
            # the evidence files describe runs on the unchanged tree: keep them out of reach of a run on a seeded change
            evp = os.path.join(VERIF, "evidence", p + ".json")
            saved = open(evp).read() if os.path.exists(evp) else None
            try:
                r = subprocess.run([os.path.join(VERIF, "check"), p, "quick"], cwd=VERIF, capture_output=True, text=True)
            finally:
                if saved is not None:
                    open(evp, "w").write(saved)
            lines = [l for l in r.stdout.splitlines() if l.startswith("VIOLATION") or l.startswith("KNOWN-FINDING")]
            kinds = []
            for l in lines:
                path = l.split("replay=")[1].split()[0] if "replay=" in l else None
                kind = "?"
                if path and os.path.exists(path):
                    head = open(path).read().splitlines()[:3]
                    kind = " / ".join(h[2:] for h in head[1:3])
                kinds.append(kind + (" [no-failing-input-found]" if "no-failing-input-found" in l else ""))
            res[p] = {"rc": r.returncode, "violations": len(lines), "kinds": kinds, "secs": round(time.time() - t0, 1)}
            print(d, p, "rc=%d" % r.returncode, kinds[:2])
    finally:
        subprocess.run(["git", "-C", "/repo", "checkout", "--", "."])
    out = os.path.join(VERIF, "seeded", d, "detection.json")
    old = json.load(open(out)) if os.path.exists(out) else {}
    old.update(res)
    json.dump(old, open(out, "w"), indent=1)
    return 0


if __name__ == "__main__":
    sys.exit(main())
