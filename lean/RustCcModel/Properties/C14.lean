import RustCcModel.Proofs.CtlSimp
import RustCcModel.Proofs.InvReach
import RustCcModel.Proofs.Untouched
import RustCcModel.Proofs.CycFresh
import RustCcModel.Proofs.Uninit
/-! # C14 — `new_cyclic`: Weak dead until initialised; uninitialised data never touched -/
namespace RustCc.C14
open World

/-- World in which the closure of `new_cyclic` runs: box allocated, value not initialised, 0 strong, 1 weak. -/
def inClosure (w : World) (id : Id) : Prop :=
  (w.heap id).boxLive = true ∧ (w.heap id).valLive = false ∧ (w.heap id).rc = 0 ∧
  (w.metas id).weak = 1 ∧ (w.metas id).accessible = true

/-- Entering the closure establishes that state (the new object gets the next identity). -/
theorem closure_entry (c : Cfg) (w : World) (k : Nat) (sp : NewSpec) (body : Nat) (selfw : Option Nat) :
    inClosure (stepFrame c w (.newCyclicAlloc k sp body selfw)) w.next := by
  simp only [stepFrame, inClosure]
  split <;> simp [raiseLogged, raise, emit, push, updMeta, Metas.set, newObj, Heap.set] <;> (try split) <;> simp [Metas.set]

/-- Inside the closure the provided `Weak` reports `strong_count() = 0` and cannot be upgraded —
for as long as no strong pointer exists, i.e. until `new_cyclic` returns. -/
theorem closure_weak_dead (w : World) (id : Id) (h : (w.heap id).rc = 0) : w.weakStrong (.to id) = 0 := by
  unfold weakStrong; simp [h]

/-- After `new_cyclic` returns normally: the value is initialised and the strong count went from 0 to 1. -/
theorem after_return (c : Cfg) (w : World) (k : Nat) (id : Id) (sp : NewSpec) (h0 : (w.heap id).rc = 0) :
    ((stepFrame c w (.newCyclicEnd k id sp none)).heap id).rc = 1 ∧
    ((stepFrame c w (.newCyclicEnd k id sp none)).heap id).valLive = true := by
  have hwd : ∀ w' : World, (w'.weakDrop (.to id)).heap = w'.heap := by
    intro w'; unfold weakDrop; simp only; split <;> rfl
  simp only [stepFrame, Bool.false_and, if_false, Bool.false_eq_true]
  unfold putH
  split <;> simp [setH, push, hwd, upd, h0]

/-- If the closure (or anything it calls) panics, the guard releases the box without running any
destructor and makes the side record not accessible: every saved clone of the `Weak` stays dead. -/
theorem closure_panic_releases (c : Cfg) (w : World) (k : Nat) (id : Id) (sp : NewSpec) (selfw : Option Nat)
    (hm : (w.heap id).hasMeta = true) :
    ((unwindFrame c w (.newCyclicEnd k id sp selfw)).heap id).boxLive = false ∧
    ((unwindFrame c w (.newCyclicEnd k id sp selfw)).metas id).accessible = false := by
  simp only [unwindFrame]
  unfold weakDrop dropMetadata
  simp only [hm, if_true]
  repeat' split
  all_goals simp [freeBox, emit, upd, updMeta, Metas.set]

/-! ### For every reachable world -/

/-- **For as long as the closure of `new_cyclic` runs** — whatever it does: clone or store its `Weak`, allocate, start
collections, run other `new_cyclic` calls, catch panics — the box exists, its value is not initialised, no strong pointer to
it exists, so the `Weak` reports `strong_count() = 0` and cannot be upgraded; and the box is neither buffered nor in a
list of a running collection: no collection takes the half-built object for garbage or traces it. -/
theorem closure_window (c : Cfg) (nH nW nK : Nat) (w : World) (h : Reachable c nH nW nK w)
    (k : Nat) (id : Id) (sp : NewSpec) (selfw : Option Nat) (hf : Frame.newCyclicEnd k id sp selfw ∈ w.stack) :
    (w.heap id).boxLive = true ∧ (w.heap id).valLive = false ∧ (w.heap id).rc = 0 ∧
    w.weakStrong (.to id) = 0 ∧ id ∉ w.pc ∧ id ∉ listed w.stack := by
  have hi := (reachable_all c nH nW nK w h).inv
  have hcy : id ∈ cycs w.stack := by
    unfold cycs; rw [List.mem_flatMap]; exact ⟨_, hf, by simp [Frame.cyc]⟩
  have hz := hi.oi.cycZ id hcy
  obtain ⟨z1, z2, z3⟩ := hi.oi.zero id hz
  have hv := hi.oi.cyc id hcy
  have hr : (w.heap id).rc = 0 := z2
  refine ⟨z1, hv, hr, closure_weak_dead w id hr, ?_, ?_⟩
  · intro hp
    have := (hi.oi.mPc id).2 hp
    have e : (w.cores id).mark = (w.heap id).mark := rfl
    rw [z3] at this; cases this
  · intro hl
    have hnd := hi.oi.ownNodup
    exact (List.nodup_append.1 hnd).2.2 id hz id hl rfl

/-- **Uninitialised data is never touched**: in every reachable world — while the closure runs, inside collections it
starts, while a panic unwinds — no step runs the destructor or the finalizer of the value under construction. -/
theorem uninitialised_never_touched (c : Cfg) (nH nW nK : Nat) (w : World) (h : Reachable c nH nW nK w)
    (k : Nat) (id : Id) (sp : NewSpec) (selfw : Option Nat) (hf : Frame.newCyclicEnd k id sp selfw ∈ w.stack) (b : Bool) :
    (b, id) ∉ vEv (newEvents w (step c w)) := by
  intro hx
  have hcy : id ∈ cycs w.stack := by
    unfold cycs; rw [List.mem_flatMap]; exact ⟨_, hf, by simp [Frame.cyc]⟩
  exact (reachable_vEv_ok h b id hx).2 hcy

/-- **… nor after the guard released the box** (the closure or an automatic collection panicked): no step of any later
reachable world runs a destructor or finalizer on a released box, the box stays released, and every `Weak` to it reports
`strong_count() = 0` and cannot be upgraded — permanently. -/
theorem released_never_touched (c : Cfg) (nH nW nK : Nat) (w : World) (h : Reachable c nH nW nK w) (id : Id)
    (hx : id < w.next) (hd : (w.heap id).boxLive = false) :
    (∀ b, (b, id) ∉ vEv (newEvents w (step c w))) ∧ ((step c w).heap id).boxLive = false ∧ w.weakStrong (.to id) = 0 := by
  refine ⟨fun b hb => ?_, freed_stays_freed c w (reachable_all c nH nW nK w h).fresh id hx hd, ?_⟩
  · have := (reachable_vEv_ok h b id hb).1
    rw [hd] at this; cases this
  · have hr : (w.heap id).rc = 0 := ((reachable_all c nH nW nK w h).inv.oi.dead id hd).1
    exact closure_weak_dead w id hr

/-- **Nobody touches the fields of the value under construction**: in every reachable world, for as long as the closure
runs, the weak fields of the new object are all still empty, no finalizer / destructor script runs with the object as
`self`, and no drop glue works on its fields. -/
theorem under_construction_fields_untouched (c : Cfg) (nH nW nK : Nat) (w : World) (h : Reachable c nH nW nK w)
    (k : Nat) (id : Id) (sp : NewSpec) (selfw : Option Nat) (hf : Frame.newCyclicEnd k id sp selfw ∈ w.stack) :
    (w.heap id).wslots = List.replicate sp.nw none ∧ ∀ g ∈ w.stack, g.selfId ≠ some id := by
  have hcf := reachable_cf h
  refine ⟨hcf.fresh k id sp selfw hf, fun g hg e => ?_⟩
  exact hcf.snc g hg id e (mem_cycs_of_frame hf)

/-! ## All memory of a panicked construction is released — every history (`Proofs/Uninit.lean`)

`HistU w D`: a history (any program, scripts, fault plan; running and unwinding steps) ending in `w`, `D` = the boxes whose value
was handed to `drop_in_place` so far. -/

/-- **A box whose value was never built exists only under its `new_cyclic` call.** In every history: a box that exists but
does not hold an intact value, and whose value was never handed to `drop_in_place`, belongs to a `new_cyclic` call that is
still on the stack. -/
theorem unbuilt_box_only_under_construction (c : Cfg) (nH nW nK : Nat) (w : World) (D : List Id) (h : HistU c nH nW nK w D)
    (x : Id) (hb : (w.heap x).boxLive = true) (hv : (w.heap x).valLive = false) (hd : x ∉ D) : x ∈ cycs w.stack := by
  rcases histU_ui c nH nW nK w D h x (by simp [Obj.lv, hb, hv]) with h1 | h1
  · exact h1
  · exact absurd h1 hd

/-- **After the closure's panic has left `new_cyclic`, the box is gone**: an identity whose value was never built nor destroyed
and that no `new_cyclic` call on the stack is constructing has no box — in particular whenever the machine is idle. -/
theorem panicked_construction_released (c : Cfg) (nH nW nK : Nat) (w : World) (D : List Id) (h : HistU c nH nW nK w D)
    (x : Id) (hv : (w.heap x).valLive = false) (hd : x ∉ D) (hc : x ∉ cycs w.stack) : (w.heap x).boxLive = false := by
  cases hb : (w.heap x).boxLive with
  | false => rfl
  | true => exact absurd (unbuilt_box_only_under_construction c nH nW nK w D h x hb hv hd) hc

/-- Idle: every box that exists holds an intact value, or its value was handed to `drop_in_place` (a destructor that panicked
may leak such a box; a `new_cyclic` closure that panicked leaks nothing). -/
theorem idle_boxes_built_or_destroyed (c : Cfg) (nH nW nK : Nat) (w : World) (D : List Id) (h : HistU c nH nW nK w D)
    (hs : w.stack = []) (x : Id) (hb : (w.heap x).boxLive = true) : (w.heap x).valLive = true ∨ x ∈ D := by
  cases hv : (w.heap x).valLive with
  | true => exact Or.inl rfl
  | false =>
    refine Or.inr (Classical.byContradiction fun hd => ?_)
    have := unbuilt_box_only_under_construction c nH nW nK w D h x hb hv hd
    rw [hs] at this; simp [cycs] at this

end RustCc.C14
