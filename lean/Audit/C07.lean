import RustCcModel.Properties.C07
#print axioms RustCc.C07.flags_invariant
#print axioms RustCc.C07.idle_after_any_history
#print axioms RustCc.C07.idle_not_tracing
#print axioms RustCc.C07.idle_can_collect
#print axioms RustCc.C07.panic_reaches_api_boundary
#print axioms RustCc.C07.unwind_through_script
#print axioms RustCc.C07.idle_marks_clean
