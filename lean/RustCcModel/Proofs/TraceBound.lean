import RustCcModel.Model.TracingF
/-! The tracing phases only ever touch objects reachable through edges from the buffered ones:
if a set `P` contains the buffer and is closed under the traced edges, every work list stays inside `P`. -/
namespace RustCc
open T1

structure TSOk (P : Nat → Prop) (s : TS) : Prop where
  closed : ∀ x, P x → ∀ y ∈ (s.h x).edges, P y
  root : ∀ x ∈ s.root, P x
  nonroot : ∀ x ∈ s.nonroot, P x
  queue : ∀ x ∈ s.queue, P x

variable {P : Nat → Prop}

theorem edges_set (h : Heap) (y : Nat) (o : Obj) (ho : o.edges = (h y).edges) (x : Nat) :
    ((h.set y o) x).edges = (h x).edges := by
  by_cases hx : x = y
  · subst hx; simp [ho]
  · simp [Heap.set, hx]

theorem closed_set {h : Heap} (hc : ∀ x, P x → ∀ y ∈ (h x).edges, P y) (y : Nat) (o : Obj) (ho : o.edges = (h y).edges) :
    ∀ x, P x → ∀ z ∈ ((h.set y o) x).edges, P z := by
  intro x hx z hz; rw [edges_set h y o ho] at hz; exact hc x hx z hz

theorem countEdge_ok {s : TS} {y : Nat} (h : TSOk P s) (hy : P y) : TSOk P (countEdge s y) := by
  unfold countEdge
  simp only
  split
  · split
    · exact ⟨closed_set h.closed y _ rfl, fun x hx => h.root x (List.mem_of_mem_erase hx),
        fun x hx => by rcases List.mem_cons.1 hx with e | e; exact e ▸ hy; exact h.nonroot x e, h.queue⟩
    · exact ⟨closed_set h.closed y _ rfl, h.root, h.nonroot, h.queue⟩
  · exact ⟨closed_set h.closed y _ rfl, h.root, h.nonroot, h.queue⟩
  · exact ⟨closed_set h.closed y _ rfl, h.root, h.nonroot, h.queue⟩
  · exact ⟨closed_set h.closed y _ rfl, h.root, h.nonroot,
      fun x hx => by rcases List.mem_append.1 hx with e | e; exact h.queue x e; simp at e; exact e ▸ hy⟩

theorem rootEdge_ok {s : TS} {y : Nat} (h : TSOk P s) (hy : P y) : TSOk P (rootEdge s y) := by
  unfold rootEdge
  split
  · exact ⟨closed_set h.closed y _ rfl, h.root, fun x hx => h.nonroot x (List.mem_of_mem_erase hx),
      fun x hx => by rcases List.mem_append.1 hx with e | e; exact h.queue x e; simp at e; exact e ▸ hy⟩
  · exact h

theorem beginObj_ok {s : TS} {x : Nat} (h : TSOk P s) : TSOk P (beginObj s x) :=
  ⟨closed_set h.closed x _ rfl, h.root, h.nonroot, h.queue⟩

theorem unmark_ok {s : TS} {x : Nat} (h : TSOk P s) : TSOk P (unmark s x) :=
  ⟨closed_set h.closed x _ rfl, h.root, h.nonroot, h.queue⟩

theorem endObj_ok {s : TS} {x : Nat} (h : TSOk P s) (hx : P x) : TSOk P (endObj s x) := by
  unfold endObj
  simp only
  split
  · exact ⟨closed_set h.closed x _ rfl, h.root,
      fun z hz => by rcases List.mem_cons.1 hz with e | e; exact e ▸ hx; exact h.nonroot z e, h.queue⟩
  · exact ⟨closed_set h.closed x _ rfl, fun z hz => by rcases List.mem_cons.1 hz with e | e; exact e ▸ hx; exact h.root z e,
      h.nonroot, h.queue⟩

theorem foldl_ok (edge : TS → Nat → TS) (he : ∀ s y, TSOk P s → P y → TSOk P (edge s y)) :
    ∀ (l : List Nat) (s : TS), (∀ y ∈ l, P y) → TSOk P s → TSOk P (l.foldl edge s)
  | [], _, _, h => h
  | y :: r, s, hl, h => foldl_ok edge he r (edge s y) (fun z hz => hl z (List.mem_cons_of_mem _ hz))
      (he s y h (hl y (List.mem_cons_self ..)))

theorem traceObjF_ok (user : Nat → Bool) (edge : TS → Nat → TS) (pre post : TS → Nat → TS)
    (he : ∀ s y, TSOk P s → P y → TSOk P (edge s y))
    (hpre : ∀ s x, TSOk P s → TSOk P (pre s x)) (hpost : ∀ s x, TSOk P s → P x → TSOk P (post s x))
    (s : FS) (x : Nat) (h : TSOk P s.ts) (hx : P x) : TSOk P (traceObjF user edge pre post s x).2.ts := by
  have hedges : ∀ y ∈ (s.ts.h x).edges, P y := h.closed x hx
  have hfull : TSOk P (post ((s.ts.h x).edges.foldl edge (pre s.ts x)) x) :=
    hpost _ _ (foldl_ok edge he _ _ hedges (hpre _ _ h)) hx
  unfold traceObjF
  simp only
  split
  · split
    · split
      · exact unmark_ok (foldl_ok edge he _ _ (fun y hy => hedges y (List.mem_of_mem_take hy)) (hpre _ _ h))
      · exact hfull
    · exact hfull
  · exact hfull

theorem countObjF_ok (user : Nat → Bool) (s : FS) (x : Nat) (h : TSOk P s.ts) (hx : P x) : TSOk P (countObjF user s x).2.ts :=
  traceObjF_ok user _ _ _ (fun _ _ h hy => countEdge_ok h hy) (fun _ _ h => beginObj_ok h) (fun _ _ h hx => endObj_ok h hx)
    s x h hx

theorem rootObjF_ok (user : Nat → Bool) (s : FS) (x : Nat) (h : TSOk P s.ts) (hx : P x) : TSOk P (rootObjF user s x).2.ts :=
  traceObjF_ok user _ _ _ (fun _ _ h hy => rootEdge_ok h hy) (fun _ _ h => unmark_ok h) (fun _ _ h _ => h)
    s x h hx

theorem countPCF_ok (user : Nat → Bool) : ∀ (l : List Nat) (s : FS), TSOk P s.ts → (∀ x ∈ l, P x) →
    TSOk P (countPCF user s l).2.1.ts ∧ ∀ x ∈ (countPCF user s l).2.2, x ∈ l
  | [], s, h, _ => ⟨h, fun _ hx => hx⟩
  | x :: rest, s, h, hl => by
    have h1 := countObjF_ok user s x h (hl x (List.mem_cons_self ..))
    unfold countPCF
    split
    · rename_i s' heq
      rw [heq] at h1
      exact ⟨h1, fun z hz => List.mem_cons_of_mem _ hz⟩
    · rename_i s' heq
      rw [heq] at h1
      have := countPCF_ok user rest s' h1 (fun z hz => hl z (List.mem_cons_of_mem _ hz))
      exact ⟨this.1, fun z hz => List.mem_cons_of_mem _ (this.2 z hz)⟩

theorem countQueueF_ok (user : Nat → Bool) : ∀ (fuel : Nat) (s : FS), TSOk P s.ts → TSOk P (countQueueF user fuel s).2.ts
  | 0, s, h => h
  | fuel + 1, s, h => by
    unfold countQueueF
    split
    · exact h
    · rename_i x q hq
      have hx : P x := h.queue x (by rw [hq]; exact List.mem_cons_self ..)
      have h0 : TSOk P ({ s with ts := { s.ts with queue := q } } : FS).ts :=
        ⟨h.closed, h.root, h.nonroot, fun z hz => h.queue z (by rw [hq]; exact List.mem_cons_of_mem _ hz)⟩
      have h1 := countObjF_ok user _ x h0 hx
      split
      · rename_i s' heq; rw [heq] at h1; exact h1
      · rename_i s' heq; rw [heq] at h1; exact countQueueF_ok user fuel s' h1

theorem rootsListF_ok (user : Nat → Bool) : ∀ (l : List Nat) (s : FS), TSOk P s.ts → (∀ x ∈ l, P x) →
    TSOk P (rootsListF user s l).2.1.ts ∧ ∀ x ∈ (rootsListF user s l).2.2, x ∈ l
  | [], s, h, _ => ⟨h, fun _ hx => hx⟩
  | x :: rest, s, h, hl => by
    have h1 := rootObjF_ok user s x h (hl x (List.mem_cons_self ..))
    unfold rootsListF
    split
    · rename_i s' heq
      rw [heq] at h1
      exact ⟨h1, fun z hz => List.mem_cons_of_mem _ hz⟩
    · rename_i s' heq
      rw [heq] at h1
      have := rootsListF_ok user rest s' h1 (fun z hz => hl z (List.mem_cons_of_mem _ hz))
      exact ⟨this.1, fun z hz => List.mem_cons_of_mem _ (this.2 z hz)⟩

theorem rootsQueueF_ok (user : Nat → Bool) : ∀ (fuel : Nat) (s : FS), TSOk P s.ts → TSOk P (rootsQueueF user fuel s).2.ts
  | 0, s, h => h
  | fuel + 1, s, h => by
    unfold rootsQueueF
    split
    · exact h
    · rename_i x q hq
      have hx : P x := h.queue x (by rw [hq]; exact List.mem_cons_self ..)
      have h0 : TSOk P ({ s with ts := { s.ts with queue := q } } : FS).ts :=
        ⟨h.closed, h.root, h.nonroot, fun z hz => h.queue z (by rw [hq]; exact List.mem_cons_of_mem _ hz)⟩
      have h1 := rootObjF_ok user _ x h0 hx
      split
      · rename_i s' heq; rw [heq] at h1; exact h1
      · rename_i s' heq; rw [heq] at h1; exact rootsQueueF_ok user fuel s' h1

/-- The lists produced by the tracing phases stay inside any edge-closed set containing the buffer;
after a panic the objects still buffered are a part of the buffer. -/
theorem tracePhasesF_bound (user : Nat → Bool) (fuel : Nat) (h : Heap) (pc : List Nat) (fault : Option (Nat × Nat))
    (hc : ∀ x, P x → ∀ y ∈ (h x).edges, P y) (hpc : ∀ x ∈ pc, P x) :
    match (tracePhasesF user fuel h pc fault).1 with
    | .done s => ∀ x ∈ s.ts.nonroot, P x
    | .panicked _ pcRest _ => ∀ x ∈ pcRest, x ∈ pc := by
  have h0 : TSOk P ({ ts := { h := h }, fault := fault } : FS).ts := ⟨hc, by simp, by simp, by simp⟩
  have h1 := countPCF_ok user pc _ h0 hpc
  unfold tracePhasesF
  simp only
  generalize countPCF user { ts := { h := h }, fault := fault } pc = r1 at h1 ⊢
  obtain ⟨b1, s1, rest1⟩ := r1
  cases b1
  · have h2 := countQueueF_ok user fuel s1 h1.1
    simp only
    generalize countQueueF user fuel s1 = r2 at h2 ⊢
    obtain ⟨b2, s2⟩ := r2
    cases b2
    · have h3 := rootsListF_ok (P := P) user s2.ts.root { s2 with ts := { s2.ts with root := [] } }
        ⟨h2.closed, by simp, h2.nonroot, h2.queue⟩ h2.root
      simp only
      generalize rootsListF user { s2 with ts := { s2.ts with root := [] } } s2.ts.root = r3 at h3 ⊢
      obtain ⟨b3, s3, rest3⟩ := r3
      cases b3
      · have h4 := rootsQueueF_ok user fuel s3 h3.1
        simp only
        generalize rootsQueueF user fuel s3 = r4 at h4 ⊢
        obtain ⟨b4, s4⟩ := r4
        cases b4
        · exact h4.nonroot
        · intro x hx; cases hx
      · intro x hx; cases hx
    · intro x hx; cases hx
  · exact h1.2
end RustCc
