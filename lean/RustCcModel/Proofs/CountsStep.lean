import RustCcModel.Proofs.CountsSimp
/-! Preservation of `Counts` by every micro-step. -/
namespace RustCc
open World
variable {ex : Bool}

theorem CountsG.congr {w w' : World} (h : CountsG ex w) (hH : w'.H = w.H) (hs : w'.stash = w.stash)
    (hst : w'.stack = w.stack) (hn : w'.next = w.next) (hheap : w'.heap = w.heap) (hpc : w'.pc = w.pc)
    (hm : w'.metas = w.metas) : CountsG ex w' := by
  have hr : ∀ x, refs w' x = refs w x := fun x => refs_congr w w' x hH hs (by rw [hst]) hn (fun u _ => by rw [hheap])
  exact ⟨fun x => by rw [hr, hheap]; exact h.le x,
         fun hex x => by rw [hr, hheap]; exact h.ge hex x,
         fun x hx => by rw [hr]; exact h.fresh x (by rw [← hn]; exact hx),
         fun f hf i hi => by rw [hn]; exact h.frames f (by rw [← hst]; exact hf) i hi,
         fun x hx => by rw [hn]; exact h.pcb x (by rw [← hpc]; exact hx),
         fun x hx => by rw [hm]; exact h.mfresh x (by rw [← hn]; exact hx)⟩

theorem CountsG.lt_of_refs_pos {w : World} (h : CountsG ex w) {y : Id} (hp : 0 < refs w y) : y < w.next := by
  cases Nat.lt_or_ge y w.next with
  | inl hlt => exact hlt
  | inr hge => have := h.fresh y hge; omega

theorem getH_count {w : World} {k : Nat} {y : Id} (h : w.getH k = some y) : 0 < (optIds w.H).count y :=
  count_pos_of_mem (getD_mem_optIds h)

theorem getH_lt {w : World} (h : CountsG ex w) {k : Nat} {y : Id} (hk : w.getH k = some y) : y < w.next := by
  apply h.lt_of_refs_pos
  have := getH_count hk
  unfold refs; omega

/-- Pointers found in fields of an allocated object point to allocated objects. -/
theorem field_lt {w : World} (h : CountsG ex w) {s y : Id} (hs : s < w.next) (hy : y ∈ fieldsOf (w.heap s)) : y < w.next := by
  apply h.lt_of_refs_pos
  have h1 := count_pos_of_mem hy
  have h2 := count_le_fieldRefs w s y hs
  unfold refs; omega

theorem slot_mem_fields {o : Obj} {i : Nat} {y : Id} (h : o.slots.getD i none = some y) : y ∈ fieldsOf o := by
  unfold fieldsOf; simp only [List.mem_append]; exact Or.inl (Or.inl (Or.inl (getD_mem_optIds h)))

theorem uslot_mem_fields {o : Obj} {i : Nat} {y : Id} (h : o.uslots.getD i none = some y) : y ∈ fieldsOf o := by
  unfold fieldsOf; simp only [List.mem_append]; exact Or.inl (Or.inl (Or.inr (getD_mem_optIds h)))

theorem resolveC_lt {w : World} (h : CountsG ex w) {self : Option Id} (hself : ∀ s, self = some s → s < w.next)
    {r : CRef} {y : Id} (hr : w.resolveC self r = some y) : y < w.next := by
  cases r with
  | h k => exact getH_lt h hr
  | sf i =>
    cases self with
    | none => simp [resolveC] at hr
    | some s => exact field_lt h (hself s rfl) (slot_mem_fields (by simpa [resolveC] using hr))
  | su i =>
    cases self with
    | none => simp [resolveC] at hr
    | some s => exact field_lt h (hself s rfl) (uslot_mem_fields (by simpa [resolveC] using hr))

theorem resolveN_lt {w : World} (h : CountsG ex w) {self : Option Id} (hself : ∀ s, self = some s → s < w.next)
    {n : NRef} {t : Id} (hn : w.resolveN self n = some t) : t < w.next := by
  cases n with
  | of r => exact resolveC_lt h hself hn
  | self => exact hself t hn


/-- Builder: a step that allocates nothing preserves `Counts` if, object by object, the pointers it adds are
paid for by the count (`Δrefs ≤ Δrc`), it creates no pointer to unallocated identities, and new frames / buffer
entries name allocated objects. -/
theorem CountsG.build {w w' : World} (h : CountsG ex w) (hn : w'.next = w.next)
    (hle : ∀ x, refs w' x + (w.heap x).rc ≤ refs w x + (w'.heap x).rc)
    (hge : ex = true → ∀ x, refs w x + (w'.heap x).rc ≤ refs w' x + (w.heap x).rc)
    (hfresh : ∀ x, w.next ≤ x → refs w' x ≤ refs w x)
    (hframes : ∀ f ∈ w'.stack, f ∈ w.stack ∨ ∀ i ∈ f.ids, i < w.next)
    (hpc : ∀ x ∈ w'.pc, x ∈ w.pc ∨ x < w.next)
    (hm : ∀ x, w.next ≤ x → (w'.metas x).accessible = false) : CountsG ex w' := by
  refine ⟨?_, ?_, ?_, ?_, ?_, ?_⟩
  · intro x
    have h2 := hle x
    have := h.le x
    omega
  · intro hex x
    have h2 := hge hex x
    have := h.ge hex x
    omega
  · intro x hx
    rw [hn] at hx
    have := h.fresh x hx
    have := hfresh x hx
    omega
  · intro f hf i hi
    rw [hn]
    rcases hframes f hf with h1 | h1
    · exact h.frames f h1 i hi
    · exact h1 i hi
  · intro x hx
    rw [hn]
    rcases hpc x hx with h1 | h1
    · exact h.pcb x h1
    · exact h1
  · intro x hx; rw [hn] at hx; exact hm x hx

/-- `Counts` with some extra pointers in flight (held by a frame that has just been popped). -/
structure CountsH (ex : Bool) (w : World) (extra : List Id) : Prop where
  le : ∀ x, refs w x + extra.count x ≤ (w.heap x).rc
  ge : ex = true → ∀ x, (w.heap x).rc ≤ refs w x + extra.count x
  fresh : ∀ x, w.next ≤ x → refs w x + extra.count x = 0
  frames : ∀ f ∈ w.stack, ∀ i ∈ f.ids, i < w.next
  pcb : ∀ x ∈ w.pc, x < w.next
  mfresh : ∀ x, w.next ≤ x → (w.metas x).accessible = false

theorem CountsG.toH {w : World} (h : CountsG ex w) : CountsH ex w [] :=
  ⟨fun x => by simpa using h.le x, fun hex x => by simpa using h.ge hex x, fun x hx => by simpa using h.fresh x hx, h.frames, h.pcb, h.mfresh⟩

/-- Ending a step with nothing in flight. -/
theorem CountsH.toCounts0 {w : World} (h : CountsH ex w []) : CountsG ex w :=
  ⟨fun x => by simpa using h.le x, fun hex x => by simpa using h.ge hex x, fun x hx => by simpa using h.fresh x hx, h.frames, h.pcb, h.mfresh⟩

theorem CountsH.toCountsF {w : World} {extra : List Id} (h : CountsH ex w extra) : CountsG false w :=
  ⟨fun x => by have := h.le x; omega, (fun hex => nomatch hex), fun x hx => by have := h.fresh x hx; omega, h.frames, h.pcb, h.mfresh⟩

/-- Forgetting exactness. -/
theorem CountsH.weaken {w : World} {extra : List Id} (h : CountsH ex w extra) : CountsH false w extra :=
  ⟨h.le, (fun hex => nomatch hex), h.fresh, h.frames, h.pcb, h.mfresh⟩

theorem CountsG.weaken {w : World} (h : CountsG ex w) : CountsG false w :=
  ⟨h.le, (fun hex => nomatch hex), h.fresh, h.frames, h.pcb, h.mfresh⟩

/-- Exactness is only claimed while `b` holds. -/
theorem CountsG.weakenAnd {w : World} (h : CountsG ex w) (b : Bool) : CountsG (ex && b) w :=
  ⟨h.le, (fun hex => h.ge (by cases ex <;> simp_all)), h.fresh, h.frames, h.pcb, h.mfresh⟩

/-- Exactness claimed only for worlds that did not get stuck on a model assertion. -/
theorem CountsG.flag {w : World} (h : w.mode ≠ .stuck → CountsG ex w) (h0 : CountsG false w) :
    CountsG (ex && decide (w.mode ≠ .stuck)) w :=
  ⟨h0.le, (fun hex => by
      have h2 : ex = true ∧ w.mode ≠ .stuck := by simpa using hex
      exact (h h2.2).ge h2.1), h0.fresh, h0.frames, h0.pcb, h0.mfresh⟩

/-- Popping the top frame: its held pointers are in flight, its identities are allocated. -/
theorem CountsG.pop {w : World} (h : CountsG ex w) {f : Frame} {rest : List Frame} (hs : w.stack = f :: rest) :
    CountsH ex { w with stack := rest } f.holds ∧ (∀ i ∈ f.ids, i < w.next) := by
  have hr : ∀ x, refs w x = refs { w with stack := rest } x + f.holds.count x := by
    intro x
    unfold refs
    have hf : fieldRefs { w with stack := rest } x = fieldRefs w x := rfl
    rw [hf, hs, held_cons, List.count_append]
    show _ = (optIds w.H).count x + w.stash x + (held rest).count x + fieldRefs w x + _
    omega
  refine ⟨⟨?_, ?_, ?_, ?_, ?_, ?_⟩, ?_⟩
  · intro x; have := h.le x; rw [hr] at this; exact this
  · intro hex x; have := h.ge hex x; rw [hr] at this; exact this
  · intro x hx; have := h.fresh x hx; rw [hr] at this; exact this
  · intro g hg i hi; exact h.frames g (by rw [hs]; exact List.mem_cons_of_mem _ hg) i hi
  · exact h.pcb
  · exact h.mfresh
  · intro i hi; exact h.frames f (by rw [hs]; exact List.mem_cons_self ..) i hi

theorem CountsH.lt_of_mem {w : World} {extra : List Id} (h : CountsH ex w extra) {y : Id} (hy : y ∈ extra) : y < w.next := by
  cases Nat.lt_or_ge y w.next with
  | inl hlt => exact hlt
  | inr hge => have := h.fresh y hge; have := count_pos_of_mem hy; omega

/-- Generalised builder (see `CountsG.build`): the in-flight pointers may be consumed. -/
theorem CountsH.build {w w' : World} {extra : List Id} (h : CountsH ex w extra) (hn : w'.next = w.next)
    (hle : ∀ x, refs w' x + (w.heap x).rc ≤ refs w x + extra.count x + (w'.heap x).rc)
    (hge : ex = true → ∀ x, refs w x + extra.count x + (w'.heap x).rc ≤ refs w' x + (w.heap x).rc)
    (hfresh : ∀ x, w.next ≤ x → refs w' x ≤ refs w x + extra.count x)
    (hframes : ∀ f ∈ w'.stack, f ∈ w.stack ∨ ∀ i ∈ f.ids, i < w.next)
    (hpc : ∀ x ∈ w'.pc, x ∈ w.pc ∨ x < w.next)
    (hm : ∀ x, w.next ≤ x → (w'.metas x).accessible = false) : CountsG ex w' := by
  refine ⟨?_, ?_, ?_, ?_, ?_, ?_⟩
  · intro x
    have h2 := hle x
    have := h.le x
    omega
  · intro hex x
    have h2 := hge hex x
    have := h.ge hex x
    omega
  · intro x hx
    rw [hn] at hx
    have := h.fresh x hx
    have := hfresh x hx
    omega
  · intro f hf i hi
    rw [hn]
    rcases hframes f hf with h1 | h1
    · exact h.frames f h1 i hi
    · exact h1 i hi
  · intro x hx
    rw [hn]
    rcases hpc x hx with h1 | h1
    · exact h.pcb x h1
    · exact h1
  · intro x hx; rw [hn] at hx; exact hm x hx

/-- `{ w with ret := r }`, `mode`, fault counters, config: nothing the invariant looks at. -/
theorem CountsG.ret {w : World} (h : CountsG ex w) (r : Ret) : CountsG ex { w with ret := r } := h.congr rfl rfl rfl rfl rfl rfl rfl

theorem CountsG.raise {w : World} (h : CountsG ex w) : CountsG ex w.raise := by
  unfold World.raise; split <;> exact h.congr rfl rfl rfl rfl rfl rfl rfl

theorem CountsG.raiseLogged {w : World} (h : CountsG ex w) : CountsG ex w.raiseLogged := by
  unfold World.raiseLogged
  exact CountsG.raise (h.congr rfl rfl rfl rfl rfl rfl rfl)

theorem pc_removeFromList_sub (w : World) (y : Id) : ∀ z ∈ (w.removeFromList y).pc, z ∈ w.pc := by
  unfold removeFromList; split
  · intro z hz; exact List.mem_of_mem_erase hz
  · intro z hz; exact hz

theorem pc_addToList_sub (w : World) (y : Id) : ∀ z ∈ (w.addToList y).pc, z ∈ w.pc ∨ z = y := by
  unfold addToList; split
  · intro z hz; exact Or.inl hz
  · split
    · intro z hz; exact Or.inl hz
    · intro z hz
      rcases List.mem_cons.1 hz with h | h
      · exact Or.inr h
      · exact Or.inl h

end RustCc
