import RustCcModel.Proofs.InvReach
/-! Definitions and helper lemmas for `BytesInv`: the effect of a step on sizes, liveness of boxes,
`allocBytes` and the event log. -/
namespace RustCc
open World
open T1 (Mark)

/-- Total size of the boxes that currently exist. -/
def liveBytes (w : World) : Nat := ((List.range w.next).map fun x => if (w.heap x).boxLive then (w.heap x).size else 0).sum

def BytesOk (w : World) : Prop := w.allocBytes = liveBytes w

/-- Events emitted by one step. -/
def newEvents (w w' : World) : List Event := w'.events.drop w.events.length

/-- The identities freed by a list of events, in order. -/
def frees : List Event → List Id
  | [] => []
  | e :: r => match e with
    | .free x => x :: frees r
    | _ => frees r

@[simp] theorem frees_nil : frees [] = [] := rfl
@[simp] theorem frees_cons_free (x : Id) (r : List Event) : frees (.free x :: r) = x :: frees r := rfl
@[simp] theorem frees_cons_alloc (x s) (r : List Event) : frees (.alloc x s :: r) = frees r := rfl
@[simp] theorem frees_cons_metaFree (x) (r : List Event) : frees (.metaFree x :: r) = frees r := rfl
@[simp] theorem frees_cons_finalize (x t) (r : List Event) : frees (.finalize x t :: r) = frees r := rfl
@[simp] theorem frees_cons_drop (x t) (r : List Event) : frees (.drop x t :: r) = frees r := rfl
@[simp] theorem frees_cons_moved (x) (r : List Event) : frees (.moved x :: r) = frees r := rfl
@[simp] theorem frees_cons_trace (x t) (r : List Event) : frees (.trace x t :: r) = frees r := rfl
@[simp] theorem frees_cons_collect (r : List Event) : frees (.collect :: r) = frees r := rfl
@[simp] theorem frees_cons_action (x t) (r : List Event) : frees (.action x t :: r) = frees r := rfl
@[simp] theorem frees_cons_panic (r : List Event) : frees (.panic :: r) = frees r := rfl
@[simp] theorem frees_append (a b : List Event) : frees (a ++ b) = frees a ++ frees b := by
  induction a with
  | nil => rfl
  | cons e r ih => cases e <;> simp [ih]
@[simp] theorem frees_map_trace (l : List Id) (t : Bool) : frees (l.map fun x => Event.trace x t) = [] := by
  induction l with
  | nil => rfl
  | cons a r ih => simp [ih]

theorem mem_frees {x : Id} {l : List Event} : x ∈ frees l ↔ Event.free x ∈ l := by
  induction l with
  | nil => simp
  | cons e r ih => cases e <;> simp [ih]

theorem count_frees (x : Id) (l : List Event) : (frees l).count x = l.count (Event.free x) := by
  induction l with
  | nil => simp
  | cons e r ih =>
    cases e <;> simp [ih, List.count_cons]

/-! ### The effect relation -/

/-- `w'` is `w` after freeing the boxes `F` (in this order), with nothing allocated: same frontier, same sizes, the
members of `F` are no longer live, `allocBytes` went down by their sizes, and the log grew by events whose `free`s are `F`. -/
structure Eff (w w' : World) (F : List Id) : Prop where
  next : w'.next = w.next
  bytes : w'.allocBytes = w.allocBytes - (F.map fun x => (w.heap x).size).sum
  size : ∀ x, (w'.heap x).size = (w.heap x).size
  live : ∀ x, (w'.heap x).boxLive = ((w.heap x).boxLive && !F.contains x)
  ev : w'.events = w.events ++ w'.events.drop w.events.length
  fr : frees (w'.events.drop w.events.length) = F

theorem Eff.mk0 {w w' : World} (next : w'.next = w.next) (bytes : w'.allocBytes = w.allocBytes)
    (size : ∀ x, (w'.heap x).size = (w.heap x).size) (live : ∀ x, (w'.heap x).boxLive = (w.heap x).boxLive)
    (ev : w'.events = w.events ++ w'.events.drop w.events.length)
    (fr : frees (w'.events.drop w.events.length) = []) : Eff w w' [] :=
  ⟨next, by simpa using bytes, size, by simpa using live, ev, fr⟩

theorem Eff.mk1 {w w' : World} {y : Id} (next : w'.next = w.next) (bytes : w'.allocBytes = w.allocBytes - (w.heap y).size)
    (size : ∀ x, (w'.heap x).size = (w.heap x).size)
    (live : ∀ x, (w'.heap x).boxLive = if x = y then false else (w.heap x).boxLive)
    (ev : w'.events = w.events ++ w'.events.drop w.events.length)
    (fr : frees (w'.events.drop w.events.length) = [y]) : Eff w w' [y] := by
  refine ⟨next, by simpa using bytes, size, ?_, ev, fr⟩
  intro x
  rw [live x]
  by_cases h : x = y
  · subst h; simp
  · have : ¬ y = x := fun e => h e.symm
    simp [h]

theorem Eff.refl (w : World) : Eff w w [] := Eff.mk0 rfl rfl (fun _ => rfl) (fun _ => rfl) (by simp) (by simp)

theorem Eff.trans {a b c : World} {F G : List Id} (h1 : Eff a b F) (h2 : Eff b c G) : Eff a c (F ++ G) := by
  have hev : c.events = a.events ++ (b.events.drop a.events.length ++ c.events.drop b.events.length) := by
    rw [← List.append_assoc, ← h1.ev, ← h2.ev]
  have hdrop : c.events.drop a.events.length = b.events.drop a.events.length ++ c.events.drop b.events.length := by
    conv => lhs; rw [hev]
    simp
  refine ⟨h2.next.trans h1.next, ?_, fun x => (h2.size x).trans (h1.size x), ?_, ?_, ?_⟩
  · rw [h2.bytes, h1.bytes, List.map_append, List.sum_append, Nat.sub_sub]
    have : (fun x => (b.heap x).size) = (fun x => (a.heap x).size) := funext h1.size
    rw [this]
  · intro x
    rw [h2.live x, h1.live x]
    simp [Bool.and_assoc]
  · rw [hdrop]; exact hev
  · rw [hdrop, frees_append, h1.fr, h2.fr]

/-- `Eff` only reads the heap, the frontier, the byte counter and the log. -/
theorem Eff.congr_left {a a' b : World} {F : List Id} (h : Eff a b F) (hh : a'.heap = a.heap) (hn : a'.next = a.next)
    (hb : a'.allocBytes = a.allocBytes) (he : a'.events = a.events) : Eff a' b F := by
  refine ⟨?_, ?_, ?_, ?_, ?_, ?_⟩
  · rw [hn]; exact h.next
  · rw [hb, hh]; exact h.bytes
  · rw [hh]; exact h.size
  · rw [hh]; exact h.live
  · rw [he]; exact h.ev
  · rw [he]; exact h.fr

theorem Eff.congr_right {a b b' : World} {F : List Id} (h : Eff a b F) (hh : b'.heap = b.heap) (hn : b'.next = b.next)
    (hb : b'.allocBytes = b.allocBytes) (he : b'.events = b.events) : Eff a b' F := by
  refine ⟨?_, ?_, ?_, ?_, ?_, ?_⟩
  · rw [hn]; exact h.next
  · rw [hb]; exact h.bytes
  · rw [hh]; exact h.size
  · rw [hh]; exact h.live
  · rw [he]; exact h.ev
  · rw [he]; exact h.fr

/-! ### Sizes, byte counter and log through the helpers -/

theorem upd_size_same (w : World) (t : Id) (g : Obj → Obj) (u : Id) (hg : ∀ o, (g o).size = o.size) :
    ((w.upd t g).heap u).size = (w.heap u).size := by
  by_cases h : u = t
  · subst h; simp [upd, hg]
  · simp [upd, Heap.set, h]

theorem upd_size_ite (w : World) (t : Id) (g : Obj → Obj) (u : Id) :
    ((w.upd t g).heap u).size = (if u = t then (g (w.heap t)).size else (w.heap u).size) := by
  by_cases h : u = t
  · subst h; simp [upd]
  · simp [upd, Heap.set, h]

theorem updAll_size_same (w : World) (l : List Id) (g : Obj → Obj) (u : Id) (hg : ∀ o, (g o).size = o.size) :
    ((w.updAll l g).heap u).size = (w.heap u).size := by
  unfold updAll
  induction l generalizing w with
  | nil => rfl
  | cons x r ih => simp only [List.foldl_cons]; rw [ih, upd_size_same _ _ _ _ hg]

@[simp] theorem updAll_allocBytes (w : World) (l : List Id) (f : Obj → Obj) : (w.updAll l f).allocBytes = w.allocBytes :=
  (updAll_same w l f).2.2.2.2.1

@[simp] theorem fromT1_size (w : World) (h : T1.Heap) (x : Id) : ((fromT1 w h).heap x).size = (w.heap x).size := rfl
@[simp] theorem fromT1_allocBytes (w : World) (h : T1.Heap) : (fromT1 w h).allocBytes = w.allocBytes := rfl
@[simp] theorem fromT1_events (w : World) (h : T1.Heap) : (fromT1 w h).events = w.events := rfl
@[simp] theorem setSlot_size (o : Obj) (s : Slot) (v) : (setSlot o s v).size = o.size := by cases s <;> rfl

theorem takeField_size (o : Obj) : (takeField o).2.size = o.size := by
  unfold takeField
  repeat' split
  all_goals rfl

@[simp] theorem removeFromList_size (w : World) (y x : Id) : ((w.removeFromList y).heap x).size = (w.heap x).size := by
  unfold removeFromList; split <;> (try rfl) <;> (by_cases h : x = y <;> simp [upd, Heap.set, h])
@[simp] theorem removeFromList_allocBytes (w : World) (y : Id) : (w.removeFromList y).allocBytes = w.allocBytes := by
  unfold removeFromList; split <;> rfl
@[simp] theorem removeFromList_events (w : World) (y : Id) : (w.removeFromList y).events = w.events := by
  unfold removeFromList; split <;> rfl

@[simp] theorem addToList_size (w : World) (y x : Id) : ((w.addToList y).heap x).size = (w.heap x).size := by
  unfold addToList; split <;> (try rfl) <;> split <;> (try rfl) <;> (by_cases h : x = y <;> simp [upd, Heap.set, h])
@[simp] theorem addToList_allocBytes (w : World) (y : Id) : (w.addToList y).allocBytes = w.allocBytes := by
  unfold addToList; split <;> (try rfl) <;> split <;> rfl
@[simp] theorem addToList_events (w : World) (y : Id) : (w.addToList y).events = w.events := by
  unfold addToList; split <;> (try rfl) <;> split <;> rfl

/-- The events `drop_metadata` emits. -/
def dmEv (w : World) (x : Id) : List Event :=
  if (w.heap x).hasMeta then (if (w.metas x).weak = 0 then [.metaFree x] else []) else []
@[simp] theorem frees_dmEv (w : World) (x : Id) : frees (dmEv w x) = [] := by
  unfold dmEv; split <;> (try rfl) <;> split <;> rfl

@[simp] theorem dropMetadata_size (w : World) (y x : Id) : ((w.dropMetadata y).heap x).size = (w.heap x).size := by
  unfold dropMetadata; split <;> (try rfl) <;> split <;> rfl
@[simp] theorem dropMetadata_allocBytes (w : World) (y : Id) : (w.dropMetadata y).allocBytes = w.allocBytes := by
  unfold dropMetadata; split <;> (try rfl) <;> split <;> rfl
@[simp] theorem dropMetadata_events (w : World) (y : Id) : (w.dropMetadata y).events = w.events ++ dmEv w y := by
  unfold dropMetadata dmEv; split <;> (try simp) <;> split <;> simp

@[simp] theorem initMeta_size (w : World) (y x : Id) : ((w.initMeta y).heap x).size = (w.heap x).size := by
  unfold initMeta; split <;> (try rfl) <;> (by_cases h : x = y <;> simp [upd, updMeta, Heap.set, h])
@[simp] theorem initMeta_allocBytes (w : World) (y : Id) : (w.initMeta y).allocBytes = w.allocBytes := by
  unfold initMeta; split <;> rfl
@[simp] theorem initMeta_events (w : World) (y : Id) : (w.initMeta y).events = w.events := by
  unfold initMeta; split <;> rfl

@[simp] theorem cloneOk_size (w : World) (y x : Id) : ((w.cloneOk y).heap x).size = (w.heap x).size := by
  unfold cloneOk
  rw [removeFromList_size]
  by_cases h : x = y <;> simp [upd, Heap.set, h]
@[simp] theorem cloneOk_allocBytes (w : World) (y : Id) : (w.cloneOk y).allocBytes = w.allocBytes := by
  unfold cloneOk; simp
@[simp] theorem cloneOk_events (w : World) (y : Id) : (w.cloneOk y).events = w.events := by
  unfold cloneOk; simp

/-- The events `Weak::drop` emits. -/
def wdEv (w : World) (r : WRef) : List Event :=
  match r with
  | .dangling => []
  | .to x => if ((w.metas x).weak - 1 = 0 ∧ !(w.metas x).accessible) then [.metaFree x] else []
@[simp] theorem frees_wdEv (w : World) (r : WRef) : frees (wdEv w r) = [] := by
  unfold wdEv; cases r with
  | dangling => rfl
  | to x => simp only; split <;> rfl

@[simp] theorem weakDrop_allocBytes (w : World) (r : WRef) : (w.weakDrop r).allocBytes = w.allocBytes := by
  unfold weakDrop; cases r with
  | dangling => rfl
  | to y => simp only; split <;> rfl
@[simp] theorem weakDrop_events (w : World) (r : WRef) : (w.weakDrop r).events = w.events ++ wdEv w r := by
  unfold weakDrop wdEv; cases r with
  | dangling => simp
  | to y => simp only [updMeta_metas_same]; split <;> simp

theorem freeBox_size (w : World) (y x : Id) : ((w.freeBox y).heap x).size = (w.heap x).size := by
  by_cases h : x = y <;> simp [freeBox, upd, emit, Heap.set, h]
theorem freeBox_allocBytes (w : World) (y : Id) : (w.freeBox y).allocBytes = w.allocBytes - (w.heap y).size := rfl
theorem freeBox_events (w : World) (y : Id) : (w.freeBox y).events = w.events ++ [.free y] := rfl

@[simp] theorem raise_allocBytes (w : World) : w.raise.allocBytes = w.allocBytes := by unfold raise; split <;> rfl
@[simp] theorem raise_events (w : World) : w.raise.events = w.events := by unfold raise; split <;> rfl
@[simp] theorem raiseLogged_allocBytes (w : World) : w.raiseLogged.allocBytes = w.allocBytes := by unfold raiseLogged; simp
@[simp] theorem raiseLogged_events (w : World) : w.raiseLogged.events = w.events ++ [.panic] := by unfold raiseLogged; simp
@[simp] theorem startCollect_allocBytes (w : World) : w.startCollect.allocBytes = w.allocBytes := rfl
@[simp] theorem startCollect_events (w : World) : w.startCollect.events = w.events ++ [.collect] := rfl
@[simp] theorem setH_allocBytes (w : World) (k v) : (w.setH k v).allocBytes = w.allocBytes := rfl
@[simp] theorem setH_events (w : World) (k v) : (w.setH k v).events = w.events := rfl
@[simp] theorem setW_allocBytes (w : World) (k v) : (w.setW k v).allocBytes = w.allocBytes := rfl
@[simp] theorem setW_events (w : World) (k v) : (w.setW k v).events = w.events := rfl
@[simp] theorem setK_allocBytes (w : World) (k v) : (w.setK k v).allocBytes = w.allocBytes := rfl
@[simp] theorem setK_events (w : World) (k v) : (w.setK k v).events = w.events := rfl

@[simp] theorem putH_next (w : World) (k x) : (w.putH k x).next = w.next := by unfold putH; split <;> rfl
@[simp] theorem putH_heap (w : World) (k x) : (w.putH k x).heap = w.heap := by unfold putH; split <;> rfl
@[simp] theorem putH_allocBytes (w : World) (k x) : (w.putH k x).allocBytes = w.allocBytes := by unfold putH; split <;> rfl
@[simp] theorem putH_events (w : World) (k x) : (w.putH k x).events = w.events := by unfold putH; split <;> rfl

/-! ### Effects of the helpers that free -/

theorem Eff.freeBox (w : World) (y : Id) : Eff w (w.freeBox y) [y] :=
  Eff.mk1 rfl rfl (freeBox_size w y) (freeBox_boxLive w y) (by simp [freeBox_events]) (by simp [freeBox_events])

theorem Eff.dropMetadata (w : World) (y : Id) : Eff w (w.dropMetadata y) [] :=
  Eff.mk0 (by simp) (by simp) (by simp) (by simp) (by simp) (by simp)

theorem Eff.weakDrop (w : World) (r : WRef) : Eff w (w.weakDrop r) [] :=
  Eff.mk0 (by simp) (by simp) (by simp) (by simp) (by simp) (by simp)

/-- One iteration of the second loop of `deallocate_list`. -/
theorem Eff.freeOne (c : Cfg) (w : World) (y : Id) : Eff w ((if c.weak then w.dropMetadata y else w).freeBox y) [y] := by
  split
  · exact (Eff.dropMetadata w y).trans (Eff.freeBox _ y)
  · exact Eff.freeBox w y

theorem Eff.foldl_free (c : Cfg) (N : List Id) : ∀ w : World,
    Eff w (N.foldl (fun w x => (if c.weak then w.dropMetadata x else w).freeBox x) w) N := by
  induction N with
  | nil => intro w; exact Eff.refl w
  | cons y r ih =>
    intro w
    simp only [List.foldl_cons]
    exact (Eff.freeOne c w y).trans (ih _)

end RustCc
