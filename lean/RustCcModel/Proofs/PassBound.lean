import RustCcModel.Proofs.AuxK
/-! A collection runs at most `passCap` tracing passes (one without `finalization`): the pass counter of every `collect`
frame on the stack is within the bound, in every reachable world. -/
namespace RustCc
open World

def passBound (c : Cfg) : Nat := if c.fin then c.passCap else 1

def Frame.pB (n : Nat) : Frame → Bool
  | .collectLoop k _ _ => decide (k ≤ n)
  | _ => true

def PBOk (c : Cfg) (w : World) : Prop := w.stack.all (Frame.pB (passBound c)) = true

macro "pb_close" : tactic => `(tactic| first
  | (simp_all [PBOk, Frame.pB, World.putH, World.startCollect, World.cloneOk]; done)
  | (simp_all [PBOk, Frame.pB, World.putH, World.startCollect, World.cloneOk, passBound]; done)
  | (simp_all [PBOk, Frame.pB, World.putH, World.startCollect, World.cloneOk, passBound]; omega)
  | (simp_all [PBOk, Frame.pB, World.putH, World.startCollect, World.cloneOk, passBound]; split <;> simp_all <;> omega))

set_option maxHeartbeats 4000000 in
theorem execOp_pbOk (c : Cfg) (w : World) (self wc : Option Id) (op : Op) (h : PBOk c w) : PBOk c (execOp c w self wc op) := by
  cases op with
  | fault kind n j => cases kind <;> simpa [execOp, PBOk] using h
  | _ =>
    simp only [execOp]
    repeat' split
    all_goals pb_close

set_option maxHeartbeats 8000000 in
theorem stepFrame_pbOk (c : Cfg) (w : World) (f : Frame) (hf : f.pB (passBound c) = true) (h : PBOk c w) : PBOk c (stepFrame c w f) := by
  cases f with
  | script ops self wc top =>
    cases ops with
    | nil => simpa [stepFrame] using h
    | cons op ops =>
      simp only [stepFrame]
      have h1 : PBOk c (w.push (.script ops self wc top)) := by simp_all [PBOk, Frame.pB]
      have h2 := execOp_pbOk c _ self wc op h1
      split
      · exact h2
      · simpa [PBOk] using h2
  | collectPass =>
    simp only [stepFrame, startDealloc]
    generalize tracePhasesF _ _ _ _ _ = r
    obtain ⟨res, fault⟩ := r
    cases res <;> simp only [] <;> repeat' split
    all_goals (simp_all [PBOk, Frame.pB]; done)
  | collectLoop n oF oD =>
    have hn : n ≤ passBound c := by simpa [Frame.pB] using hf
    simp only [stepFrame]
    cases hc : c.fin with
    | true =>
      simp only [if_true]
      have hb : passBound c = c.passCap := by simp [passBound, hc]
      by_cases hst : n ≥ c.passCap ∨ w.pc.isEmpty = true
      · rw [if_pos hst]; simpa [PBOk] using h
      · rw [if_neg hst]
        have : n + 1 ≤ passBound c := by rw [hb]; omega
        simp_all [PBOk, Frame.pB]
    | false =>
      simp only [Bool.false_eq_true, if_false]
      have hb : passBound c = 1 := by simp [passBound, hc]
      by_cases hst : n ≥ 1 ∨ w.pc.isEmpty = true
      · rw [if_pos hst]; simpa [PBOk] using h
      · rw [if_neg hst]
        have : n + 1 ≤ passBound c := by rw [hb]; omega
        simp_all [PBOk, Frame.pB]
  | deallocDrop N r oD =>
    cases r with
    | cons x r => simp only [stepFrame]; repeat' split
                  all_goals pb_close
    | nil =>
      simp only [stepFrame]
      split
      · pb_close
      · simp only [PBOk, foldl_free_stack] at *; exact h
  | _ =>
    simp only [stepFrame, destroyLast, startDealloc]
    repeat' split
    all_goals first
      | pb_close
      | (simp_all [PBOk, Frame.pB, World.putH]; split <;> simp_all [Frame.pB]; done)

set_option maxHeartbeats 4000000 in
theorem unwindFrame_pbOk (c : Cfg) (w : World) (f : Frame) (h : PBOk c w) : PBOk c (unwindFrame c w f) := by
  cases f <;> simp only [unwindFrame] <;> repeat' split
  all_goals pb_close

theorem step_pbOk (c : Cfg) (w : World) (h : PBOk c w) : PBOk c (step c w) := by
  unfold step
  split
  · exact h
  · exact h
  · split
    · simpa [PBOk] using h
    · rename_i f rest hs
      apply unwindFrame_pbOk
      simp_all [PBOk]
  · split
    · exact h
    · rename_i f rest hs
      apply stepFrame_pbOk
      · simp_all [PBOk]
      · simp_all [PBOk]

/-- **A collection runs a bounded number of passes**: in every reachable world every active `collect` has started at most
`passCap` passes (at most one without `finalization`) — finalizers that keep releasing or creating objects cannot make it loop. -/
theorem reachable_pbOk {c : Cfg} {nH nW nK : Nat} {w : World} (h : Reachable c nH nW nK w) :
    ∀ n oF oD, Frame.collectLoop n oF oD ∈ w.stack → n ≤ passBound c := by
  have : PBOk c w := by
    induction h with
    | init => simp [PBOk, World.init]
    | step w _ ih => exact step_pbOk c w ih
    | top w op _ hs hm ih => simp [PBOk, Frame.pB]
  intro n oF oD hm
  have := List.all_eq_true.1 this _ hm
  simpa [Frame.pB] using this

end RustCc
