import RustCcModel.Proofs.Counts
/-! Simp lemmas: `refs`, `rc`, `boxLive`, `next` through the helpers (partly generated). -/
namespace RustCc
open World

@[simp] theorem refs_removeFromList (w : World) (y x : Id) : refs (w.removeFromList y) x = refs w x := removeFromList_refs w y x
@[simp] theorem refs_addToList (w : World) (y x : Id) : refs (w.addToList y) x = refs w x := addToList_refs w y x
@[simp] theorem refs_dropMetadata (w : World) (y x : Id) : refs (w.dropMetadata y) x = refs w x := dropMetadata_refs w y x
@[simp] theorem refs_freeBox (w : World) (y x : Id) : refs (w.freeBox y) x = refs w x := freeBox_refs w y x
@[simp] theorem refs_initMeta (w : World) (y x : Id) : refs (w.initMeta y) x = refs w x := initMeta_refs w y x
@[simp] theorem refs_cloneOk (w : World) (y x : Id) : refs (w.cloneOk y) x = refs w x := cloneOk_refs w y x
@[simp] theorem refs_weakDrop (w : World) (r : WRef) (x : Id) : refs (w.weakDrop r) x = refs w x := weakDrop_refs w r x

@[simp] theorem removeFromList_rc (w : World) (y x : Id) : ((w.removeFromList y).heap x).rc = (w.heap x).rc := by unfold removeFromList; split <;> (try rfl) <;> (by_cases h : x = y <;> simp [upd, Heap.set, h])
@[simp] theorem removeFromList_boxLive (w : World) (y x : Id) : ((w.removeFromList y).heap x).boxLive = (w.heap x).boxLive := by unfold removeFromList; split <;> (try rfl) <;> (by_cases h : x = y <;> simp [upd, Heap.set, h])
@[simp] theorem removeFromList_valLive (w : World) (y x : Id) : ((w.removeFromList y).heap x).valLive = (w.heap x).valLive := by unfold removeFromList; split <;> (try rfl) <;> (by_cases h : x = y <;> simp [upd, Heap.set, h])
@[simp] theorem removeFromList_kind (w : World) (y x : Id) : ((w.removeFromList y).heap x).kind = (w.heap x).kind := by unfold removeFromList; split <;> (try rfl) <;> (by_cases h : x = y <;> simp [upd, Heap.set, h])
@[simp] theorem removeFromList_fields (w : World) (y x : Id) : fieldsOf ((w.removeFromList y).heap x) = fieldsOf (w.heap x) := by unfold removeFromList; split <;> (try rfl) <;> (by_cases h : x = y <;> simp [fieldsOf, upd, Heap.set, h])
@[simp] theorem removeFromList_next (w : World) (y : Id) : (w.removeFromList y).next = w.next := by unfold removeFromList; split <;> rfl
@[simp] theorem removeFromList_H (w : World) (y : Id) : (w.removeFromList y).H = w.H := by unfold removeFromList; split <;> rfl
@[simp] theorem addToList_rc (w : World) (y x : Id) : ((w.addToList y).heap x).rc = (w.heap x).rc := by unfold addToList; split <;> (try rfl) <;> split <;> (try rfl) <;> (by_cases h : x = y <;> simp [upd, Heap.set, h])
@[simp] theorem addToList_boxLive (w : World) (y x : Id) : ((w.addToList y).heap x).boxLive = (w.heap x).boxLive := by unfold addToList; split <;> (try rfl) <;> split <;> (try rfl) <;> (by_cases h : x = y <;> simp [upd, Heap.set, h])
@[simp] theorem addToList_valLive (w : World) (y x : Id) : ((w.addToList y).heap x).valLive = (w.heap x).valLive := by unfold addToList; split <;> (try rfl) <;> split <;> (try rfl) <;> (by_cases h : x = y <;> simp [upd, Heap.set, h])
@[simp] theorem addToList_kind (w : World) (y x : Id) : ((w.addToList y).heap x).kind = (w.heap x).kind := by unfold addToList; split <;> (try rfl) <;> split <;> (try rfl) <;> (by_cases h : x = y <;> simp [upd, Heap.set, h])
@[simp] theorem addToList_fields (w : World) (y x : Id) : fieldsOf ((w.addToList y).heap x) = fieldsOf (w.heap x) := by unfold addToList; split <;> (try rfl) <;> split <;> (try rfl) <;> (by_cases h : x = y <;> simp [fieldsOf, upd, Heap.set, h])
@[simp] theorem addToList_next (w : World) (y : Id) : (w.addToList y).next = w.next := by unfold addToList; split <;> (try rfl) <;> split <;> rfl
@[simp] theorem addToList_H (w : World) (y : Id) : (w.addToList y).H = w.H := by unfold addToList; split <;> (try rfl) <;> split <;> rfl
@[simp] theorem dropMetadata_rc (w : World) (y x : Id) : ((w.dropMetadata y).heap x).rc = (w.heap x).rc := by unfold dropMetadata; split <;> (try rfl) <;> split <;> rfl
@[simp] theorem dropMetadata_boxLive (w : World) (y x : Id) : ((w.dropMetadata y).heap x).boxLive = (w.heap x).boxLive := by unfold dropMetadata; split <;> (try rfl) <;> split <;> rfl
@[simp] theorem dropMetadata_valLive (w : World) (y x : Id) : ((w.dropMetadata y).heap x).valLive = (w.heap x).valLive := by unfold dropMetadata; split <;> (try rfl) <;> split <;> rfl
@[simp] theorem dropMetadata_kind (w : World) (y x : Id) : ((w.dropMetadata y).heap x).kind = (w.heap x).kind := by unfold dropMetadata; split <;> (try rfl) <;> split <;> rfl
@[simp] theorem dropMetadata_fields (w : World) (y x : Id) : fieldsOf ((w.dropMetadata y).heap x) = fieldsOf (w.heap x) := by unfold dropMetadata; split <;> (try rfl) <;> split <;> rfl
@[simp] theorem dropMetadata_next (w : World) (y : Id) : (w.dropMetadata y).next = w.next := by unfold dropMetadata; split <;> (try rfl) <;> split <;> rfl
@[simp] theorem dropMetadata_H (w : World) (y : Id) : (w.dropMetadata y).H = w.H := by unfold dropMetadata; split <;> (try rfl) <;> split <;> rfl
@[simp] theorem initMeta_rc (w : World) (y x : Id) : ((w.initMeta y).heap x).rc = (w.heap x).rc := by unfold initMeta; split <;> (try rfl) <;> (by_cases h : x = y <;> simp [upd, updMeta, Heap.set, h])
@[simp] theorem initMeta_boxLive (w : World) (y x : Id) : ((w.initMeta y).heap x).boxLive = (w.heap x).boxLive := by unfold initMeta; split <;> (try rfl) <;> (by_cases h : x = y <;> simp [upd, updMeta, Heap.set, h])
@[simp] theorem initMeta_valLive (w : World) (y x : Id) : ((w.initMeta y).heap x).valLive = (w.heap x).valLive := by unfold initMeta; split <;> (try rfl) <;> (by_cases h : x = y <;> simp [upd, updMeta, Heap.set, h])
@[simp] theorem initMeta_kind (w : World) (y x : Id) : ((w.initMeta y).heap x).kind = (w.heap x).kind := by unfold initMeta; split <;> (try rfl) <;> (by_cases h : x = y <;> simp [upd, updMeta, Heap.set, h])
@[simp] theorem initMeta_fields (w : World) (y x : Id) : fieldsOf ((w.initMeta y).heap x) = fieldsOf (w.heap x) := by unfold initMeta; split <;> (try rfl) <;> (by_cases h : x = y <;> simp [fieldsOf, upd, updMeta, Heap.set, h])
@[simp] theorem initMeta_next (w : World) (y : Id) : (w.initMeta y).next = w.next := by unfold initMeta; split <;> rfl
@[simp] theorem initMeta_H (w : World) (y : Id) : (w.initMeta y).H = w.H := by unfold initMeta; split <;> rfl

@[simp] theorem weakDrop_heap (w : World) (r : WRef) : (w.weakDrop r).heap = w.heap := by
  unfold weakDrop; cases r with
  | dangling => rfl
  | to y => simp only; split <;> rfl
@[simp] theorem weakDrop_next (w : World) (r : WRef) : (w.weakDrop r).next = w.next := by
  unfold weakDrop; cases r with
  | dangling => rfl
  | to y => simp only; split <;> rfl
@[simp] theorem weakDrop_H (w : World) (r : WRef) : (w.weakDrop r).H = w.H := by
  unfold weakDrop; cases r with
  | dangling => rfl
  | to y => simp only; split <;> rfl

theorem freeBox_rc (w : World) (y x : Id) : ((w.freeBox y).heap x).rc = (if x = y then 0 else (w.heap x).rc) := by
  by_cases h : x = y <;> simp [freeBox, upd, emit, Heap.set, h]
theorem freeBox_boxLive (w : World) (y x : Id) : ((w.freeBox y).heap x).boxLive = (if x = y then false else (w.heap x).boxLive) := by
  by_cases h : x = y <;> simp [freeBox, upd, emit, Heap.set, h]
@[simp] theorem freeBox_fields (w : World) (y x : Id) : fieldsOf ((w.freeBox y).heap x) = fieldsOf (w.heap x) := by
  by_cases h : x = y <;> simp [freeBox, upd, emit, Heap.set, h, fieldsOf]
@[simp] theorem freeBox_next (w : World) (y : Id) : (w.freeBox y).next = w.next := rfl
@[simp] theorem freeBox_H (w : World) (y : Id) : (w.freeBox y).H = w.H := rfl

theorem cloneOk_rc (w : World) (y x : Id) : ((w.cloneOk y).heap x).rc = (if x = y then (w.heap x).rc + 1 else (w.heap x).rc) := by
  unfold cloneOk
  rw [removeFromList_rc]
  by_cases h : x = y <;> simp [upd, Heap.set, h]
@[simp] theorem cloneOk_boxLive (w : World) (y x : Id) : ((w.cloneOk y).heap x).boxLive = (w.heap x).boxLive := by
  unfold cloneOk
  rw [removeFromList_boxLive]
  by_cases h : x = y <;> simp [upd, Heap.set, h]
@[simp] theorem cloneOk_fields (w : World) (y x : Id) : fieldsOf ((w.cloneOk y).heap x) = fieldsOf (w.heap x) := by
  unfold cloneOk
  rw [removeFromList_fields]
  by_cases h : x = y <;> simp [upd, Heap.set, h, fieldsOf]
@[simp] theorem cloneOk_next (w : World) (y : Id) : (w.cloneOk y).next = w.next := by unfold cloneOk; simp [upd]
@[simp] theorem cloneOk_H (w : World) (y : Id) : (w.cloneOk y).H = w.H := by unfold cloneOk; simp [upd]
@[simp] theorem cloneOk_pcsub (w : World) (y : Id) : ∀ z ∈ (w.cloneOk y).pc, z ∈ w.pc := by
  unfold cloneOk removeFromList
  split
  · intro z hz; exact List.mem_of_mem_erase hz
  · intro z hz; exact hz


@[simp] theorem upd_next (w : World) (x : Id) (f) : (w.upd x f).next = w.next := rfl
@[simp] theorem push_next (w : World) (f : Frame) : (w.push f).next = w.next := rfl
@[simp] theorem emit_next (w : World) (e : Event) : (w.emit e).next = w.next := rfl
@[simp] theorem updMeta_next (w : World) (x : Id) (f) : (w.updMeta x f).next = w.next := rfl
@[simp] theorem setH_next (w : World) (k v) : (w.setH k v).next = w.next := rfl
@[simp] theorem setW_next (w : World) (k v) : (w.setW k v).next = w.next := rfl
@[simp] theorem setK_next (w : World) (k v) : (w.setK k v).next = w.next := rfl
@[simp] theorem updAll_next (w : World) (l : List Id) (f : Obj → Obj) : (w.updAll l f).next = w.next := (updAll_same w l f).2.2.2.2.2.2
end RustCc
