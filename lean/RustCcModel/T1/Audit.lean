import RustCcModel.T1.FinalComplete
open T1
#print axioms tracePhases_safe
#print axioms tracePhases_safe_fuel
#print axioms tracePhases_complete
#print axioms countQueue_drains
#print axioms rootsQueue_drains

def exH : Heap := fun i =>
  match i with
  | 0 => { rc := 2, mark := .pc, edges := [1] }
  | 1 => { rc := 1, edges := [0] }
  | 2 => { rc := 1, uedges := [0] }
  | 3 => { rc := 1, mark := .pc, edges := [4] }
  | 4 => { rc := 1 }
  | _ => {}
#eval (tracePhases 5 exH [0, 3]).nonroot   -- [] : 0 is pinned by the untraced owner 2
def exG : Heap := fun i =>
  match i with
  | 0 => { rc := 1, mark := .pc, edges := [1] }
  | 1 => { rc := 1, edges := [0] }
  | 3 => { rc := 1, mark := .pc, edges := [4] }
  | 4 => { rc := 1 }
  | _ => {}
#eval (tracePhases 5 exG [0, 3]).nonroot   -- [1, 0]
/-- The hypotheses of T1/T2 are satisfiable on `exG` (non-vacuity): objs = [0,1,3,4], ext 3 = 1. -/
example : Exact exG [0, 1, 3, 4] (fun x => if x = 3 then 1 else 0) := by
  refine ⟨by decide, ?_, ?_⟩
  · intro u hu y hy
    simp at hu
    rcases hu with rfl | rfl | rfl | rfl <;> simp [exG] at hy <;> simp [hy]
  · intro x
    match x with
    | 0 | 1 | 2 | 3 | 4 => simp [exG, List.count_cons]
    | n + 5 => simp [exG, List.count_cons]
