import RustCcModel.Proofs.DroppedMono
import RustCcModel.Proofs.WeakInv
/-! **The counts never exceed their maximum** (C16): in every world of the running machine every strong count is at most
`MAX` and every weak count at most the weak `MAX`. -/
namespace RustCc
open World

def RcOk (c : Cfg) (w : World) : Prop := ∀ x, (w.heap x).rc ≤ c.rcMax

theorem upd_rc_le (c : Cfg) (w : World) (t : Id) (g : Obj → Obj) (hg : ∀ o, (g o).rc ≤ o.rc) (h : RcOk c w) : RcOk c (w.upd t g) := by
  intro u
  by_cases e : u = t
  · subst e; simp only [upd, Heap.set, if_true]; exact Nat.le_trans (hg _) (h u)
  · simp only [upd, Heap.set, e, if_false]; exact h u

theorem upd_rc_set (c : Cfg) (w : World) (t : Id) (g : Obj → Obj) (hg : (g (w.heap t)).rc ≤ c.rcMax) (h : RcOk c w) : RcOk c (w.upd t g) := by
  intro u
  by_cases e : u = t
  · subst e; simpa [upd, Heap.set] using hg
  · simp only [upd, Heap.set, e, if_false]; exact h u

theorem RcOk.congr {c : Cfg} {w w' : World} (h : RcOk c w) (hh : ∀ x, (w'.heap x).rc = (w.heap x).rc) : RcOk c w' := by
  intro x; rw [hh]; exact h x

theorem weakDrop_heap' (w : World) (r : WRef) : (w.weakDrop r).heap = w.heap := by
  unfold weakDrop; cases r with
  | dangling => rfl
  | to y => simp only; split <;> rfl

theorem putH_heap' (w : World) (k : Nat) (x : Id) : (w.putH k x).heap = w.heap := by
  unfold putH; split <;> rfl

theorem upd_rc (w : World) (t : Id) (g : Obj → Obj) (u : Id) :
    ((w.upd t g).heap u).rc = if u = t then (g (w.heap t)).rc else (w.heap u).rc := by
  by_cases e : u = t
  · subst e; simp [upd]
  · simp [upd, Heap.set, e]

@[simp] theorem setSlot_rc' (o : Obj) (s : Slot) (v : Option Id) : (setSlot o s v).rc = o.rc := by cases s <;> rfl

macro "rc_tac" h:term : tactic => `(tactic| (
  intro y
  have hy := $h y
  simp only [upd_rc, removeFromList_rc, addToList_rc, dropMetadata_rc, initMeta_rc, freeBox_rc, cloneOk_rc, World.setH, World.setW,
    World.setK, World.startCollect, World.emit, World.push, World.updMeta_heap, putH_heap', s_raise_heap, s_raiseLogged_heap, setSlot_rc',
    weakDrop_heap']
  repeat' split
  all_goals (first | exact hy | (simp_all [canClone]; done) | (simp_all [canClone]; omega) | (subst_vars; simp_all [canClone]; omega))))

set_option maxHeartbeats 16000000 in
theorem execOp_rcOk (c : Cfg) (w : World) (self wc : Option Id) (op : Op) (h1 : 1 ≤ c.rcMax) (h : RcOk c w) :
    RcOk c (execOp c w self wc op) := by
  cases op with
  | fault kind n j => cases kind <;> exact h
  | _ =>
    simp only [execOp]
    repeat' split
    all_goals (rc_tac h)

theorem updAll_rc_same (w : World) (l : List Id) (g : Obj → Obj) (u : Id) (hg : ∀ o, (g o).rc = o.rc) :
    ((w.updAll l g).heap u).rc = (w.heap u).rc := by
  unfold updAll
  induction l generalizing w with
  | nil => rfl
  | cons x r ih =>
    simp only [List.foldl_cons]; rw [ih, upd_rc]
    split
    · rename_i e; subst e; exact hg _
    · rfl

theorem foldl_free_rc_le (c : Cfg) (N : List Id) : ∀ (w : World) (x : Id),
    ((N.foldl (fun w x => (if c.weak then w.dropMetadata x else w).freeBox x) w).heap x).rc ≤ (w.heap x).rc := by
  induction N with
  | nil => intro w x; exact Nat.le_refl _
  | cons y r ih =>
    intro w x; simp only [List.foldl_cons]
    refine Nat.le_trans (ih _ x) ?_
    rw [freeBox_rc]
    split
    · exact Nat.zero_le _
    · split <;> simp

theorem takeField_rc (o : Obj) : (takeField o).2.rc = o.rc := by
  unfold takeField
  repeat' split
  all_goals rfl

theorem startDealloc_rc (c : Cfg) (w : World) (N : List Id) (x : Id) : ((startDealloc c w N).heap x).rc = (w.heap x).rc := by
  unfold startDealloc
  simp only []
  have h1 : ∀ W : World, ((W.updAll N fun o => { o with doomed := true }).heap x).rc = (W.heap x).rc :=
    fun W => updAll_rc_same W N (fun o : Obj => { o with doomed := true }) x (fun _ => rfl)
  have h2 : ∀ W : World, ((W.updAll N fun o => { o with dropped := true }).heap x).rc = (W.heap x).rc :=
    fun W => updAll_rc_same W N (fun o : Obj => { o with dropped := true }) x (fun _ => rfl)
  split
  · rw [h2, h1]; rfl
  · rw [h1]; rfl

theorem destroyLast_rc_le (c : Cfg) (w : World) (y x : Id) : ((destroyLast c w y).heap x).rc ≤ (w.heap x).rc := by
  unfold destroyLast
  simp only []
  split
  · simp only [World.push_heap, upd_rc, removeFromList_rc]
    repeat' split
    all_goals (first | omega | (subst_vars; omega) | simp)
  · simp only [World.push_heap, upd_rc, removeFromList_rc]
    repeat' split
    all_goals (first | omega | (subst_vars; omega) | simp)

set_option maxHeartbeats 16000000 in
theorem stepFrame_rcOk (c : Cfg) (w : World) (f : Frame) (h1 : 1 ≤ c.rcMax)
    (hz : ∀ k id sp sw, f = .newCyclicEnd k id sp sw → (w.heap id).rc = 0) (h : RcOk c w) : RcOk c (stepFrame c w f) := by
  cases f with
  | script ops self wc top =>
    cases ops with
    | nil => exact h
    | cons op ops =>
      simp only [stepFrame]
      have := execOp_rcOk c (w.push (.script ops self wc top)) self wc op h1 h
      split <;> exact this
  | collectPass =>
    simp only [stepFrame]
    generalize tracePhasesF _ _ _ _ _ = r
    obtain ⟨res, fault⟩ := r
    cases res with
    | panicked hh pcRest log => simp only []; intro y; simp only [s_raiseLogged_heap]; exact h y
    | done s =>
      simp only []
      split
      · intro y; exact h y
      · split
        · intro y; exact h y
        · intro y; rw [startDealloc_rc]; exact h y
  | finalizePass N r hasFin oF =>
    cases r with
    | nil =>
      simp only [stepFrame]
      split
      · intro y; rw [startDealloc_rc]; exact h y
      · intro y
        show ((({ w with finalizing := oF } : World).updAll N fun o => { o with tc := 0, mark := .pc }).heap y).rc ≤ _
        rw [updAll_rc_same _ _ (fun o : Obj => { o with tc := 0, mark := .pc }) _ (fun _ => rfl)]; exact h y
    | cons x r => simp only [stepFrame]; split <;> (rc_tac h)
  | deallocDrop N r oD =>
    cases r with
    | cons x r => simp only [stepFrame]; split <;> (rc_tac h)
    | nil =>
      simp only [stepFrame]
      split
      · exact h
      · intro y; exact Nat.le_trans (foldl_free_rc_le c N w y) (h y)
  | dropFields x unw =>
    simp only [stepFrame]
    have ht := takeField_rc (w.heap x)
    split
    · rename_i z o' hzz
      rw [hzz] at ht
      intro y
      simp only [World.push_heap, upd_rc]
      split
      · rw [show o'.rc = (w.heap x).rc from ht]; exact h x
      · exact h y
    · rename_i z o' hzz
      rw [hzz] at ht
      intro y
      simp only [weakDrop_heap', World.push_heap, upd_rc]
      split
      · rw [show o'.rc = (w.heap x).rc from ht]; exact h x
      · exact h y
    · split <;> exact h
  | dropCc x =>
    simp only [stepFrame]
    repeat' split
    all_goals first
      | (rc_tac h)
      | (intro y; exact Nat.le_trans (destroyLast_rc_le c _ x y) (h y))
  | dropCcAfterFin x oF =>
    simp only [stepFrame]
    split
    · rc_tac h
    · intro y; exact Nat.le_trans (destroyLast_rc_le c _ x y) (h y)
  | newCyclicEnd k id sp selfw =>
    have hz0 := hz k id sp selfw rfl
    simp only [stepFrame]
    repeat' split
    all_goals (intro y; have hy := h y; simp only [putH_heap', weakDrop_heap', upd_rc, World.push, World.setH, World.updMeta_heap, s_raise_heap];
               repeat' split
               all_goals (first | exact hy | (subst_vars; simp_all; done) | (subst_vars; simp_all; omega) | (simp_all; done) | (simp_all; omega)))
  | regInsert owner script k cap =>
    simp only [stepFrame]
    split
    · exact h
    · split
      · rc_tac h
      · rename_i m hm hb
        have hgen : ∀ (idx : Nat) (om' : Obj), om'.rc = (w.heap m).rc →
            RcOk c (if (((({ w with nextAid := w.nextAid + 1 } : World).upd m fun _ => om').initMeta m).metas m).weak ≥ c.weakMax then
                ((({ w with nextAid := w.nextAid + 1 } : World).upd m fun _ => om').initMeta m).raise
              else ((((({ w with nextAid := w.nextAid + 1 } : World).upd m fun _ => om').initMeta m).updMeta m
                fun mm => { mm with weak := mm.weak + 1 }).removeFromList m).setK k (some (m, idx, w.nextAid))) := by
          intro idx om' hom y
          have hy := h y
          split
          · simp only [s_raise_heap, initMeta_rc, upd_rc]
            split
            · rename_i e; subst e; rw [hom]; exact hy
            · exact hy
          · simp only [World.setK, removeFromList_rc, World.updMeta_heap, initMeta_rc, upd_rc]
            split
            · rename_i e; subst e; rw [hom]; exact hy
            · exact hy
        cases hfr : (w.heap m).afree with
        | nil => simp only []; refine hgen _ _ ?_; rfl
        | cons i fr => simp only []; refine hgen _ _ ?_; rfl
  | newAlloc k sp =>
    simp only [stepFrame]
    intro y
    simp only [putH_heap', World.emit]
    show ((w.heap.set w.next (newObj c w sp)) y).rc ≤ _
    simp only [Heap.set]
    split
    · simpa [newObj] using h1
    · exact h y
  | newCyclicAlloc k sp body selfw =>
    simp only [stepFrame]
    have key : ∀ y, ((w.heap.set w.next ({ newObj c w sp with rc := 0, valLive := false, hasMeta := true } : Obj)) y).rc ≤ c.rcMax := by
      intro y
      simp only [Heap.set]
      split
      · exact Nat.zero_le _
      · exact h y
    split
    · intro y; simp only [s_raiseLogged_heap]; exact key y
    · intro y; exact key y
  | mapAlloc owner =>
    simp only [stepFrame]
    have key : ∀ (o : Obj), o.rc ≤ c.rcMax → ∀ y, ((w.heap.set w.next o) y).rc ≤ c.rcMax := by
      intro o ho y
      simp only [Heap.set]
      split
      · exact ho
      · exact h y
    split
    · intro y
      simp only [upd_rc]
      split
      · rename_i e; subst e; exact key _ h1 y
      · exact key _ h1 y
    · intro y; exact key _ h1 y
  | _ =>
    simp only [stepFrame]
    repeat' split
    all_goals first
      | exact h
      | (rc_tac h)

/-! ### Weak counts -/

def WkOk (c : Cfg) (w : World) : Prop := ∀ x, (w.metas x).weak ≤ c.weakMax

theorem updMeta_wk (w : World) (t : Id) (g : Meta → Meta) (u : Id) :
    ((w.updMeta t g).metas u).weak = if u = t then (g (w.metas t)).weak else (w.metas u).weak := by
  by_cases e : u = t
  · subst e; simp [updMeta, Metas.set]
  · simp [updMeta, Metas.set, e]

theorem initMeta_wk (w : World) (t u : Id) :
    ((w.initMeta t).metas u).weak = if u = t ∧ (w.heap t).hasMeta = false then 0 else (w.metas u).weak := by
  unfold initMeta
  split
  · rename_i h; simp [h]
  · rename_i h
    simp only [updMeta_wk, upd_metas]
    by_cases e : u = t
    · subst e; simp [h]
    · simp [e]

theorem dropMetadata_wk (w : World) (t u : Id) : ((w.dropMetadata t).metas u).weak = (w.metas u).weak := by
  unfold dropMetadata
  split
  · split
    · simp only [emit_metas, updMeta_wk]; split
      · subst_vars; rfl
      · rfl
    · simp only [updMeta_wk]; split
      · subst_vars; rfl
      · rfl
  · rfl

theorem weakDrop_wk_le (w : World) (r : WRef) (u : Id) : ((w.weakDrop r).metas u).weak ≤ (w.metas u).weak := by
  unfold weakDrop
  cases r with
  | dangling => exact Nat.le_refl _
  | to y =>
    simp only
    split
    · simp only [emit_metas, updMeta_wk]
      repeat' split
      all_goals (first | omega | (subst_vars; omega) | (subst_vars; simp; omega) | simp)
    · simp only [updMeta_wk]
      split
      · subst_vars; omega
      · exact Nat.le_refl _

theorem weakDrop_to_wk (w : World) (t u : Id) :
    ((w.weakDrop (.to t)).metas u).weak = if u = t then (w.metas t).weak - 1 else (w.metas u).weak := by
  unfold weakDrop
  simp only
  split
  · simp only [emit_metas, updMeta_wk]
    repeat' split
    all_goals (first | rfl | (subst_vars; simp_all) | simp_all)
  · simp only [updMeta_wk]

theorem WkOk.weakDrop {c : Cfg} {w : World} (h : WkOk c w) (r : WRef) : WkOk c (w.weakDrop r) :=
  fun u => Nat.le_trans (weakDrop_wk_le w r u) (h u)

macro "wk_tac" h:term : tactic => `(tactic| (
  intro y
  have hy := $h y
  simp only [weakDrop_to_wk, updMeta_wk, initMeta_wk, dropMetadata_wk, upd_metas, removeFromList_metas', addToList_metas', cloneOk_metas,
    wk_freeBox_metas, wk_updAll_metas, s_emit_metas, s_push_metas, s_setH_metas, s_setW_metas, s_setK_metas, s_raise_metas,
    s_raiseLogged_metas, s_startCollect_metas, World.putH]
  repeat' split
  all_goals (first | exact hy | exact Nat.le_trans (weakDrop_wk_le _ _ _) hy | (simp_all [updMeta_wk, initMeta_wk]; done) | (simp_all [updMeta_wk, initMeta_wk]; omega) | (subst_vars; simp_all [updMeta_wk, initMeta_wk]; omega))))

set_option maxHeartbeats 16000000 in
theorem execOp_wkOk (c : Cfg) (w : World) (self wc : Option Id) (op : Op) (h : WkOk c w) :
    WkOk c (execOp c w self wc op) := by
  cases op with
  | fault kind n j => cases kind <;> exact h
  | _ =>
    simp only [execOp]
    repeat' split
    all_goals (wk_tac h)

theorem foldl_free_wk (c : Cfg) (N : List Id) : ∀ (w : World) (x : Id),
    ((N.foldl (fun w x => (if c.weak then w.dropMetadata x else w).freeBox x) w).metas x).weak = (w.metas x).weak := by
  induction N with
  | nil => intro w x; rfl
  | cons y r ih =>
    intro w x; simp only [List.foldl_cons]
    rw [ih, wk_freeBox_metas]
    split
    · exact dropMetadata_wk _ _ _
    · rfl

theorem startDealloc_metas (c : Cfg) (w : World) (N : List Id) : (startDealloc c w N).metas = w.metas := by
  unfold startDealloc
  simp only []
  split <;> simp

theorem destroyLast_metas (c : Cfg) (w : World) (x : Id) : (destroyLast c w x).metas = w.metas := by
  unfold destroyLast
  simp only []
  split <;> simp

set_option maxHeartbeats 16000000 in
theorem stepFrame_wkOk (c : Cfg) (w : World) (f : Frame) (h2 : 1 ≤ c.weakMax) (h : WkOk c w) : WkOk c (stepFrame c w f) := by
  cases f with
  | script ops self wc top =>
    cases ops with
    | nil => exact h
    | cons op ops =>
      simp only [stepFrame]
      have := execOp_wkOk c (w.push (.script ops self wc top)) self wc op h
      split <;> exact this
  | collectPass =>
    simp only [stepFrame]
    generalize tracePhasesF _ _ _ _ _ = r
    obtain ⟨res, fault⟩ := r
    cases res with
    | panicked hh pcRest log => simp only []; intro y; simp only [s_raiseLogged_metas]; exact h y
    | done s =>
      simp only []
      split
      · intro y; exact h y
      · split
        · intro y; exact h y
        · intro y; rw [startDealloc_metas]; exact h y
  | finalizePass N r hasFin oF =>
    cases r with
    | nil =>
      simp only [stepFrame]
      split
      · intro y; rw [startDealloc_metas]; exact h y
      · intro y
        show ((({ w with finalizing := oF } : World).updAll N fun o => { o with tc := 0, mark := .pc }).metas y).weak ≤ _
        rw [wk_updAll_metas]; exact h y
    | cons x r => simp only [stepFrame]; split <;> (wk_tac h)
  | deallocDrop N r oD =>
    cases r with
    | cons x r => simp only [stepFrame]; split <;> (wk_tac h)
    | nil =>
      simp only [stepFrame]
      split
      · exact h
      · intro y
        show ((N.foldl (fun w x => (if c.weak then w.dropMetadata x else w).freeBox x) w).metas y).weak ≤ _
        rw [foldl_free_wk]; exact h y
  | dropFields x unw =>
    simp only [stepFrame]
    split
    · wk_tac h
    · exact WkOk.weakDrop (w := (w.upd x fun _ => _).push _) h _
    · split <;> exact h
  | dropCc x =>
    simp only [stepFrame]
    repeat' split
    all_goals first
      | (wk_tac h)
      | (intro y; rw [destroyLast_metas]; exact h y)
  | dropCcAfterFin x oF =>
    simp only [stepFrame]
    split
    · wk_tac h
    · intro y; rw [destroyLast_metas]; exact h y
  | newCyclicEnd k id sp selfw =>
    simp only [stepFrame]
    repeat' split
    all_goals first
      | (wk_tac h)
      | (intro y
         simp only [World.putH]
         repeat' split
         all_goals (simp only [s_push_metas, s_setH_metas]
                    refine Nat.le_trans (weakDrop_wk_le _ _ _) ?_
                    have hy := h y
                    simp only [upd_metas, updMeta_wk]
                    repeat' split
                    all_goals (first | exact hy | (subst_vars; simp_all; done) | (subst_vars; simp_all; omega) | (simp_all; done) | (simp_all; omega))))
  | regInsert owner script k cap =>
    simp only [stepFrame]
    split
    · exact h
    · split
      · wk_tac h
      · rename_i m hm hb
        have hgen : ∀ (idx : Nat) (om' : Obj), om'.hasMeta = (w.heap m).hasMeta →
            WkOk c (if (((({ w with nextAid := w.nextAid + 1 } : World).upd m fun _ => om').initMeta m).metas m).weak ≥ c.weakMax then
                ((({ w with nextAid := w.nextAid + 1 } : World).upd m fun _ => om').initMeta m).raise
              else ((((({ w with nextAid := w.nextAid + 1 } : World).upd m fun _ => om').initMeta m).updMeta m
                fun mm => { mm with weak := mm.weak + 1 }).removeFromList m).setK k (some (m, idx, w.nextAid))) := by
          intro idx om' hom y
          have hy := h y
          split
          · simp only [s_raise_metas, initMeta_wk, upd_metas]
            split
            · exact Nat.zero_le _
            · exact hy
          · rename_i hg
            simp only [s_setK_metas, removeFromList_metas', updMeta_wk, initMeta_wk, upd_metas] at hg ⊢
            repeat' split
            all_goals (first | exact hy | (simp_all; done) | (simp_all; omega) | (subst_vars; simp_all; done) | (subst_vars; simp_all; omega))
        cases hfr : (w.heap m).afree with
        | nil => simp only []; refine hgen _ _ ?_; rfl
        | cons i fr => simp only []; refine hgen _ _ ?_; rfl
  | newCyclicAlloc k sp body selfw =>
    simp only [stepFrame]
    split
    · intro y
      simp only [s_raiseLogged_metas, s_push_metas, updMeta_wk, s_emit_metas]
      split
      · exact h2
      · exact h y
    · intro y
      simp only [s_push_metas, updMeta_wk, s_emit_metas]
      split
      · exact h2
      · exact h y
  | _ =>
    simp only [stepFrame]
    repeat' split
    all_goals first
      | exact h
      | (wk_tac h)

set_option maxHeartbeats 8000000 in
theorem unwindFrame_rcOk (c : Cfg) (w : World) (f : Frame) (h : RcOk c w) : RcOk c (unwindFrame c w f) := by
  cases f <;> simp only [unwindFrame] <;> repeat' split
  all_goals first
    | exact h
    | (rc_tac h)
    | (intro y; have hy := h y
       simp only [updAll_rc_same _ _ (fun o : Obj => { o with mark := .non }) _ (fun _ => rfl),
         updAll_rc_same _ _ (fun o : Obj => { o with mark := .non, dropped := o.dropped || c.weak }) _ (fun _ => rfl)]
       exact hy)

set_option maxHeartbeats 8000000 in
theorem unwindFrame_wkOk (c : Cfg) (w : World) (f : Frame) (h : WkOk c w) : WkOk c (unwindFrame c w f) := by
  cases f <;> simp only [unwindFrame] <;> repeat' split
  all_goals first
    | exact h
    | (wk_tac h)

/-- **No count ever exceeds its maximum**: in every reachable world (running or unwinding, whatever was caught) every strong
count is at most `MAX` and every weak count at most the weak `MAX`. -/
theorem reachable_maxOk {c : Cfg} {nH nW nK : Nat} {w : World} (h1 : 1 ≤ c.rcMax) (h2 : 1 ≤ c.weakMax)
    (h : Reachable c nH nW nK w) : RcOk c w ∧ WkOk c w := by
  induction h with
  | init => exact ⟨fun x => by simp [World.init], fun x => by simp [World.init]⟩
  | top w op _ hs hm ih => exact ih
  | step w hr ih =>
    have hi := (reachable_all c nH nW nK w hr).inv
    unfold step
    split
    · exact ih
    · exact ih
    · split
      · exact ih
      · exact ⟨unwindFrame_rcOk c _ _ ih.1, unwindFrame_wkOk c _ _ ih.2⟩
    · split
      · exact ih
      · rename_i f rest hs
        refine ⟨stepFrame_rcOk c _ f h1 ?_ ih.1, stepFrame_wkOk c _ f h2 ih.2⟩
        intro k id sp sw e
        have hcy : id ∈ cycs w.stack := by
          rw [hs, e, cycs_cons]; exact List.mem_append_left _ (by simp [Frame.cyc])
        exact (hi.oi.zero id (hi.oi.cycZ id hcy)).2.1

end RustCc
