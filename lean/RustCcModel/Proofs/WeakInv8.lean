import RustCcModel.Proofs.WeakInv7
/-! `WeakH` through the remaining operations (weak fields, stashes, `try_unwrap`) and through `execOp`. -/
namespace RustCc
open World

variable {ex : Bool}

theorem wslots_set_count (l : List (Option Id)) (i : Nat) (v old : Option Id) (x : Id) (h : l[i]? = some old) :
    (optIds (l.set i v)).count x + old.toList.count x = (optIds l).count x + v.toList.count x := by
  have hi : i < l.length := by
    cases Nat.lt_or_ge i l.length with
    | inl h' => exact h'
    | inr h' => simp [List.getElem?_eq_none h'] at h
  have := optIds_set_count l i v x hi
  rw [h] at this
  simpa using this

theorem weakDrop_metas_congr (w1 w2 : World) (r : WRef) (h : w1.metas = w2.metas) : (w1.weakDrop r).metas = (w2.weakDrop r).metas := by
  cases r with
  | dangling => exact h
  | to y =>
    funext x
    by_cases hxy : x = y
    · subst hxy; rw [weakDrop_metas_same, weakDrop_metas_same, h]
    · rw [weakDrop_metas_other _ _ _ hxy, weakDrop_metas_other _ _ _ hxy, h]

variable (c : Cfg) (w : World) (self wc : Option Id)

theorem execOp_weakH_setw (n : NRef) (i : Nat) (ws : WSel) (hc : Counts w) (h : WeakH ex w [])
    (hself : ∀ s, self = some s → s < w.next) (hwc : ∀ x, wc = some x → x ∈ cycs w.stack) :
    WeakH ex (execOp c w self wc (.setw n i ws)) [] := by
  simp only [execOp]
  split
  · wneutral h
  · split
    · rename_i t x ht hr
      have htlt := resolveN_lt hc hself ht
      have hp := resolveW_pos hself hwc hr
      split
      · rename_i old hold
        split
        · exact h.raise
        · have h2 := h.incr x 1 (h.live_of_pos (by simpa using hp)) (h.lt_of_pos (by simpa using hp))
          have h3 := WeakH.updWslots (w := w.updMeta x fun m => { m with weak := m.weak + 1 }) (E := []) t
            (fun o => { o with wslots := o.wslots.set i (some x) }) [x] old.toList
            (by simpa using h2) htlt
            (fun z => by
              have := wslots_set_count (w.heap t).wslots i (some x) old z hold
              simpa using this) rfl rfl
          cases old with
          | none => exact WeakH.ret (E := []) h3 _
          | some y => exact (WeakH.weakDrop (by simpa using h3)).ret _
      · wneutral h
    · wneutral h

theorem execOp_weakH_clrw (n : NRef) (i : Nat) (hc : Counts w) (h : WeakH ex w [])
    (hself : ∀ s, self = some s → s < w.next) : WeakH ex (execOp c w self wc (.clrw n i)) [] := by
  simp only [execOp]
  split
  · wneutral h
  · split
    · rename_i t ht
      have htlt := resolveN_lt hc hself ht
      split
      · rename_i y hy
        have h3 := WeakH.updWslots (E := []) t (fun o => { o with wslots := o.wslots.set i none }) [] [y]
            (by simpa using h) htlt
            (fun z => by
              have := wslots_set_count (w.heap t).wslots i none (some y) z hy
              simpa using this) rfl rfl
        exact (WeakH.weakDrop (by simpa using h3)).ret _
      · wneutral h
    · wneutral h

theorem execOp_weakH_unwrap (k : Nat) (h : WeakH ex w []) : WeakH ex (execOp c w self wc (.unwrap k)) [] := by
  simp only [execOp]
  split
  · rename_i x hx
    split
    · wneutral h
    · have h1 : WeakH ex (((w.setH k none).removeFromList x).upd x fun o => { o with valLive := false }) [] := by wneutral h
      have h2 := h1.freeStep c x
      wneutral h2
  · wneutral h

theorem execOp_weakH_downN (r : CRef) (n : Nat) (hc : Counts w) (hi : Inv w) (h : WeakH ex w [])
    (hself : ∀ s, self = some s → s < w.next) : WeakH ex (execOp c w self wc (.downN r n)) [] := by
  simp only [execOp]
  split
  · wneutral h
  · split
    · rename_i x hx
      have hxlt := resolveC_lt hc hself hx
      have hb : (w.heap x).boxLive = true := hi.oi.boxLive_of_rc (resolveC_rc hc hself hx)
      have h1 := h.initMeta x
      have hl := h.initMeta_live x hb
      have hxlt' : x < (w.initMeta x).next := by simpa using hxlt
      split
      · wneutral h
      · split
        · have h2 := (h1.incr x n hl hxlt').removeFromList x
          exact h2.toStash _
        · split
          · have h2 : WeakH ex (w.initMeta x) (List.replicate (c.weakMax - ((w.initMeta x).metas x).weak) x ++ []) := by
              rename_i h0; rw [h0]; simpa using h1
            exact (h2.toStash (w.initMeta x).ret).raise
          · have h2 := (h1.incr x (c.weakMax - ((w.initMeta x).metas x).weak) hl hxlt').removeFromList x
            exact (h2.toStash _).raise
    · wneutral h

theorem execOp_weakH_wdropN (r : CRef) (n : Nat) (h : WeakH ex w []) : WeakH ex (execOp c w self wc (.wdropN r n)) [] := by
  simp only [execOp]
  split
  · wneutral h
  · split
    · rename_i x hx
      split
      · wneutral h
      · rename_i hk0
        have hk : min n (w.wstash x) ≤ w.wstash x := Nat.min_le_right _ _
        have h1 := h.fromStash x (min n (w.wstash x)) Ret.ok hk
        have e : List.replicate (min n (w.wstash x)) x ++ [] = List.replicate (min n (w.wstash x) - 1) x ++ x :: [] := by
          have : min n (w.wstash x) = (min n (w.wstash x) - 1) + 1 := by omega
          rw [List.append_nil]
          conv => lhs; rw [this, List.replicate_succ']
        rw [e] at h1
        have h2 := WeakH.weakDrop h1.decr
        refine WeakH.neutral h2 ?_ ?_ ?_ ?_ ?_ ?_ ?_ ?_ ?_
        · simp
        · simp
        · simp
        · exact (weakDrop_metas_congr _ _ _ rfl)
        · simp
        · simp
        · intro u; simp
        · intro u; simp
        · intro u; simp
    · wneutral h

/-- **Every operation preserves the weak invariant** (the stack clause is `execOp_wcOk`). -/
theorem execOp_weakH (op : Op) (hc : Counts w) (hi : Inv w) (h : WeakH ex w [])
    (hself : ∀ s, self = some s → s < w.next) (hwc : ∀ x, wc = some x → x ∈ cycs w.stack) :
    WeakH ex (execOp c w self wc op) [] := by
  cases op with
  | unwrap k => exact execOp_weakH_unwrap c w self wc k h
  | down r k => exact execOp_weakH_down c w self wc r k hc hi h hself
  | wclone ws k => exact execOp_weakH_wclone c w self wc ws k h hself hwc
  | wdrop k => exact execOp_weakH_wdrop c w self wc k h
  | wnew k => exact execOp_weakH_wnew c w self wc k h
  | setw n i ws => exact execOp_weakH_setw c w self wc n i ws hc h hself hwc
  | clrw n i => exact execOp_weakH_clrw c w self wc n i hc h hself
  | cdrop k => exact execOp_weakH_cdrop c w self wc k h
  | downN r n => exact execOp_weakH_downN c w self wc r n hc hi h hself
  | wdropN r n => exact execOp_weakH_wdropN c w self wc r n h
  | _ => exact execOp_weakH_neutral c w self wc _ h trivial

end RustCc
