import RustCcModel.T1.Phase1b
namespace T1

theorem endObj_h (s : TS) (x : Nat) :
    (endObj s x).h = s.h.set x { s.h x with mark := .inList } := by
  unfold endObj; by_cases h : (s.h x).rc = (s.h x).tc <;> simp [h]

theorem endObj_edges (s : TS) (x z : Nat) : ((endObj s x).h z).edges = (s.h z).edges := by
  rw [endObj_h]; by_cases hz : z = x
  · subst hz; simp
  · simp [hz]

theorem endObj_rc (s : TS) (x z : Nat) : ((endObj s x).h z).rc = (s.h z).rc := by
  rw [endObj_h]; by_cases hz : z = x
  · subst hz; simp
  · simp [hz]

theorem endObj_tc (s : TS) (x z : Nat) : ((endObj s x).h z).tc = (s.h z).tc := by
  rw [endObj_h]; by_cases hz : z = x
  · subst hz; simp
  · simp [hz]

theorem endObj_mark (s : TS) (x z : Nat) :
    ((endObj s x).h z).mark = if z = x then .inList else (s.h z).mark := by
  rw [endObj_h]; by_cases hz : z = x
  · subst hz; simp
  · simp [hz]

theorem endObj_queue (s : TS) (x : Nat) : (endObj s x).queue = s.queue := by
  unfold endObj; by_cases h : (s.h x).rc = (s.h x).tc <;> simp [h]

theorem endObj_nonroot (s : TS) (x : Nat) :
    (endObj s x).nonroot = if (s.h x).rc = (s.h x).tc then x :: s.nonroot else s.nonroot := by
  unfold endObj; by_cases h : (s.h x).rc = (s.h x).tc <;> simp [h]

theorem endObj_root (s : TS) (x : Nat) :
    (endObj s x).root = if (s.h x).rc = (s.h x).tc then s.root else x :: s.root := by
  unfold endObj; by_cases h : (s.h x).rc = (s.h x).tc <;> simp [h]

/-- Finishing the current object: it joins `done` (and one of the two lists). -/
theorem endObj_P1 (s : TS) (done : List Nat) (c : Nat) (P : List Nat)
    (hinv : P1 s done (some c) (s.h c).edges P) :
    P1 (endObj s c) (c :: done) none [] P := by
  have hmc : (s.h c).mark = .inQueue := (hinv.mQueue c).2 (Or.inr rfl)
  have hnd : c ∉ done := fun h => by have := (hinv.mList c).2 h; simp [hmc] at this
  have hnq : c ∉ s.queue := hinv.curNotQueued c rfl
  have hnp : c ∉ P := fun h => by have := (hinv.mPc c).2 h; simp [hmc] at this
  have hcnr : c ∉ s.nonroot := fun h => hnd ((hinv.nonroot c).1 h).1
  have hcr : c ∉ s.root := fun h => hnd ((hinv.root c).1 h).1
  have hic : ∀ z, inCount (endObj s c).h (c :: done) z = inCount s.h done z + (s.h c).edges.count z := by
    intro z
    rw [inCount_congr s.h (endObj s c).h (c :: done) z (fun u => endObj_edges s c u), inCount_cons]
    omega
  constructor
  · intro z hz; rw [hic, endObj_tc]; simp
    rw [endObj_mark] at hz
    by_cases hzc : z = c
    · subst hzc; exact hinv.tcMarked z (by simp [hmc])
    · simp [hzc] at hz; exact hinv.tcMarked z hz
  · intro z hz; rw [hic]; simp
    rw [endObj_mark] at hz
    by_cases hzc : z = c
    · simp [hzc] at hz
    · simp [hzc] at hz; have := hinv.unseen z hz; omega
  · intro z; rw [endObj_mark]
    by_cases hzc : z = c
    · subst hzc; simp
    · simp [hzc]; exact hinv.mList z
  · intro z; rw [endObj_mark, endObj_queue]
    by_cases hzc : z = c
    · subst hzc; simp [hnq]
    · have := hinv.mQueue z
      simp [hzc] at this ⊢
      rw [this]
      constructor
      · rintro (h | h)
        · exact h
        · exact absurd h.symm hzc
      · exact Or.inl
  · intro z; rw [endObj_mark]
    by_cases hzc : z = c
    · subst hzc; simp [hnp]
    · simp [hzc]; exact hinv.mPc z
  · intro z; rw [endObj_rc, endObj_tc, endObj_nonroot]
    by_cases hzc : z = c
    · subst hzc; split <;> simp_all
    · have := hinv.nonroot z
      split <;> simp [hzc, this]
  · intro z; rw [endObj_rc, endObj_tc, endObj_root]
    by_cases hzc : z = c
    · subst hzc; split <;> simp_all
    · have := hinv.root z
      split <;> simp [hzc, this]
  · rw [endObj_root]; split
    · exact hinv.rootNodup
    · exact List.nodup_cons.2 ⟨hcr, hinv.rootNodup⟩
  · rw [endObj_nonroot]; split
    · exact List.nodup_cons.2 ⟨hcnr, hinv.nonrootNodup⟩
    · exact hinv.nonrootNodup
  · rw [endObj_queue]; exact hinv.queueNodup
  · intro c' hc'; simp at hc'

/-- One whole `__trace_counting` call, starting from a state where `x` has just been popped
(`hbegin`), under the reference-count bound for `x`'s edges. -/
theorem countObj_P1 (s : TS) (done : List Nat) (x : Nat) (P : List Nat)
    (hbegin : P1 (beginObj s x) done (some x) [] P)
    (hb : ∀ y, inCount s.h done y + (s.h x).edges.count y ≤ (s.h y).rc) :
    P1 (countObj s x) (x :: done) none [] P := by
  unfold countObj
  have hex : ((beginObj s x).h x).edges = (s.h x).edges := beginObj_edges s x x
  have h2 := foldl_countEdge_P1 (beginObj s x) done x [] (s.h x).edges P hbegin (by
    intro y
    rw [inCount_congr s.h (beginObj s x).h done y (fun u => beginObj_edges s x u), beginObj_rc]
    simpa using hb y)
  simp only [List.nil_append] at h2
  apply endObj_P1
  rw [foldl_countEdge_edges, hex]
  exact h2

end T1
