import RustCcModel.Model.Machine
import RustCcModel.Proofs.TraceFlagEv
import RustCcModel.Proofs.NoNesting
import RustCcModel.Proofs.CallbackFlags
import RustCcModel.Proofs.NoFin
/-! # C12 — collector phases are observable and collections never nest

Step-level facts of the machine (the global part — "idle ⇒ all flags false", which makes
`is_tracing` false outside collections — is `RustCc.Flags.idle_flags` in `Proofs/Flags.lean`, re-exported
in `C07`). -/
namespace RustCc.C12
open World

/-- `is_tracing()` is `collecting ∧ ¬finalizing ∧ ¬dropping`: while a flag of a callback phase is set it is false. -/
theorem not_tracing_in_callbacks (c : Cfg) (w : World) (h : w.dropping = true ∨ (c.fin = true ∧ w.finalizing = true)) :
    w.isTracing c = false := by
  unfold isTracing
  rcases h with h | ⟨h1, h2⟩ <;> simp [*]

theorem not_tracing_outside_collections (c : Cfg) (w : World) (h : w.collecting = false) :
    w.isTracing c = false := by
  unfold isTracing; simp [h]

/-- The tracing phases of a pass run with `finalizing = dropping = false`: `collect` clears both for
its duration (whatever the caller's flags were), so every `trace` call sees `is_tracing() = true`. -/
theorem startCollect_is_tracing (c : Cfg) (w : World) : (w.startCollect).isTracing c = true := by
  unfold startCollect isTracing push emit; simp

/-- `collect_cycles()` while a collection is in progress is a no-op. -/
theorem collect_nested_noop (c : Cfg) (w : World) (self wc : Option Id) (h : w.collecting = true) :
    execOp c w self wc .collect = { w with ret := .ok } := by
  simp [execOp, h]

/-- The allocation-triggered collection never starts while a collection is in progress. -/
theorem no_auto_collect_while_collecting (c : Cfg) (w : World) (h : w.collecting = true) :
    w.shouldCollect c = false := by
  unfold shouldCollect; simp [h]

/-- A collection starts only from a state that is not collecting, and counts as exactly one execution. -/
theorem startCollect_counts (w : World) :
    (w.startCollect).execs = w.execs + 1 ∧ (w.startCollect).collecting = true := by
  unfold startCollect push emit; simp

/-- `try_unwrap` from any callback phase returns `Err` and changes nothing. -/
theorem unwrap_err_in_callbacks (c : Cfg) (w : World) (self wc : Option Id) (k : Nat) (x : Id)
    (hk : w.getH k = some x)
    (h : w.collecting = true ∨ w.dropping = true ∨ (c.fin = true ∧ w.finalizing = true)) :
    execOp c w self wc (.unwrap k) = { w with ret := .err } := by
  simp only [execOp, hk]
  have : ((w.heap x).rc ≠ 1 ∨ w.collecting = true ∨ w.dropping = true ∨ (c.fin = true ∧ w.finalizing = true)) := by
    rcases h with h | h | h
    · exact Or.inr (Or.inl h)
    · exact Or.inr (Or.inr (Or.inl h))
    · exact Or.inr (Or.inr (Or.inr h))
  rw [if_pos this]

/-- `finalize_again` from any callback phase panics, leaving the object unchanged (the world only starts unwinding). -/
theorem finAgain_panics_in_callbacks (c : Cfg) (w : World) (self wc : Option Id) (k : Nat) (x : Id)
    (hk : w.getH k = some x) (hfin : c.fin = true)
    (h : w.collecting = true ∨ w.finalizing = true ∨ w.dropping = true) :
    execOp c w self wc (.finAgain k) = w.raise := by
  simp only [execOp, hk]
  simp [hfin, h]

theorem raise_keeps_heap (w : World) : w.raise.heap = w.heap ∧ w.raise.pc = w.pc ∧ w.raise.H = w.H := by
  unfold raise; split <;> simp

/-! ### The first sentence, for every reachable world (all nestings of callbacks, caught panics included) -/

/-- **Every event of every reachable log carries the right value of `is_tracing()`**: `true` on each `trace` call,
`false` on each finalizer, destructor and cleaning-action call. -/
theorem tracing_flag_of_every_callback (c : Cfg) (nH nW nK : Nat) (w : World) (h : Reachable c nH nW nK w) :
    (∀ x t, Event.trace x t ∈ w.events → t = true) ∧
    (∀ x t, Event.finalize x t ∈ w.events → t = false) ∧
    (∀ x t, Event.drop x t ∈ w.events → t = false) ∧
    (∀ a t, Event.action a t ∈ w.events → t = false) := by
  have := reachable_tf h
  unfold TF at this
  rw [List.all_eq_true] at this
  refine ⟨fun x t he => ?_, fun x t he => ?_, fun x t he => ?_, fun a t he => ?_⟩
  all_goals (have h1 := this _ he; simpa using h1)

/-- **`is_tracing()` is false whenever anything but the collector's own loop is about to run** — in particular while any
script (the body of a finalizer, destructor, cleaning action, `new_cyclic` closure or top-level operation) is on top of
the stack, whatever encloses it. -/
theorem not_tracing_unless_collector_on_top (c : Cfg) (nH nW nK : Nat) (w : World) (h : Reachable c nH nW nK w)
    (f : Frame) (rest : List Frame) (hs : w.stack = f :: rest) (hq : f.quiet = false) : w.isTracing c = false := by
  have ht := reachable_tOk h
  rw [hs] at ht
  refine isTracing_false_of_nt c w (reachable_all c nH nW nK w h).flags (by rw [hs]; exact nt_of_top ht hq) ?_
  exact fun hc => (reachable_nf hc h).1

/-- **`is_tracing()` is true whenever a tracing pass is about to run.** -/
theorem tracing_when_pass_on_top (c : Cfg) (nH nW nK : Nat) (w : World) (h : Reachable c nH nW nK w)
    (rest : List Frame) (hs : w.stack = .collectPass :: rest) : w.isTracing c = true :=
  isTracing_true_of_pass c w rest hs (reachable_all c nH nW nK w h).flags (reachable_all c nH nW nK w h).inv.wf

/-- **A collection never starts while another is in progress**: in every reachable world — whatever finalizers, destructors,
cleaning actions and `new_cyclic` closures requested, at any nesting depth — at most one `collect` is active (one
`collectLoop` frame on the stack), and `collecting` is true exactly when one is. -/
theorem collections_never_nest (c : Cfg) (nH nW nK : Nat) (w : World) (h : Reachable c nH nW nK w) :
    loops w.stack ≤ 1 ∧ (w.collecting = true ↔ loops w.stack = 1) := by
  have := reachable_no_nesting h
  cases hc : w.collecting <;> simp [hc] at this <;> simp [this]

/-- Non-vacuity: a script frame is not a collector frame, a pass frame is. -/
example : (Frame.script [.collect] (some 0) none false).quiet = false ∧ Frame.collectPass.quiet = true := ⟨rfl, rfl⟩

/-! ### The last sentence, for every reachable world (`Proofs/CallbackFlags.lean`, `Proofs/NoFin.lean`)

A script running on an object `x` (`self = some x`) is `x`'s finalizer or destructor. `W` below is the world in which the
machine executes the script's next operation (the rest of the script pushed back). -/

/-- **Inside every finalizer and destructor a phase flag is up** — whatever started it (a collection, a plain drop, a
collection nested in either), after any history with caught panics. -/
theorem flag_up_inside_callbacks (c : Cfg) (nH nW nK : Nat) (w : World) (h : Reachable c nH nW nK w)
    (ops : List Op) (x : Id) (wc : Option Id) (top : Bool) (rest : List Frame)
    (hs : w.stack = .script ops (some x) wc top :: rest) :
    w.collecting = true ∨ w.finalizing = true ∨ w.dropping = true :=
  callback_flag_up c nH nW nK w h ops x wc top rest hs

/-- **From inside any finalizer or destructor `try_unwrap` returns `Err` and changes nothing** — every reachable world, with
and without the `finalization` feature. -/
theorem unwrap_err_inside_callbacks (c : Cfg) (nH nW nK : Nat) (w : World) (h : Reachable c nH nW nK w)
    (k : Nat) (ops : List Op) (x y : Id) (wc : Option Id) (top : Bool) (rest : List Frame)
    (hs : w.stack = .script (.unwrap k :: ops) (some x) wc top :: rest) (hk : w.getH k = some y) :
    let W := ({ w with stack := rest } : World).push (.script ops (some x) wc top)
    execOp c W (some x) wc (.unwrap k) = { W with ret := .err } := by
  intro W
  have hfl := callback_flag_up c nH nW nK w h _ x wc top rest hs
  refine unwrap_err_in_callbacks c W (some x) wc k y hk ?_
  rcases hfl with h1 | h1 | h1
  · exact Or.inl h1
  · cases hc : c.fin with
    | true => exact Or.inr (Or.inr ⟨rfl, h1⟩)
    | false => rw [reachable_nFin hc h] at h1; cases h1
  · exact Or.inr (Or.inl h1)

/-- **From inside any finalizer or destructor `finalize_again` panics**, leaving every object unchanged (the heap, the buffer
and the tables are those of before; the machine only starts unwinding). -/
theorem finalize_again_panics_inside_callbacks (c : Cfg) (nH nW nK : Nat) (w : World) (h : Reachable c nH nW nK w)
    (k : Nat) (ops : List Op) (x y : Id) (wc : Option Id) (top : Bool) (rest : List Frame)
    (hs : w.stack = .script (.finAgain k :: ops) (some x) wc top :: rest) (hk : w.getH k = some y) (hfin : c.fin = true) :
    let W := ({ w with stack := rest } : World).push (.script ops (some x) wc top)
    execOp c W (some x) wc (.finAgain k) = W.raise ∧ W.raise.heap = w.heap ∧ W.raise.pc = w.pc ∧ W.raise.H = w.H := by
  intro W
  have hfl := callback_flag_up c nH nW nK w h _ x wc top rest hs
  exact ⟨finAgain_panics_in_callbacks c W (some x) wc k y hk hfin hfl, raise_keeps_heap W⟩

end RustCc.C12
