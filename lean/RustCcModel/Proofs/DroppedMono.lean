import RustCcModel.Proofs.FinOnce
import RustCcModel.Proofs.LifeReach
/-! The `dropped` flag of a box is never cleared (running machine), and every member of a list under destruction carries
it (`weak-ptrs`): what `Weak::upgrade` relies on. -/
namespace RustCc
open World
open T1 (Mark)

theorem upd_drp_mono (w : World) (t : Id) (g : Obj → Obj) (u : Id) (hg : ∀ o, o.dropped = true → (g o).dropped = true)
    (h : (w.heap u).dropped = true) : ((w.upd t g).heap u).dropped = true := by
  by_cases e : u = t
  · subst e; simpa [upd] using hg _ h
  · simpa [upd, Heap.set, e] using h

theorem upd_drp_same (w : World) (t : Id) (g : Obj → Obj) (u : Id) (hg : ∀ o, (g o).dropped = o.dropped) :
    ((w.upd t g).heap u).dropped = (w.heap u).dropped := by
  by_cases h : u = t
  · subst h; simp [upd, hg]
  · simp [upd, Heap.set, h]

theorem updAll_drp_mono (w : World) (l : List Id) (g : Obj → Obj) (u : Id) (hg : ∀ o, o.dropped = true → (g o).dropped = true)
    (h : (w.heap u).dropped = true) : ((w.updAll l g).heap u).dropped = true := by
  unfold updAll
  induction l generalizing w with
  | nil => exact h
  | cons x r ih => simp only [List.foldl_cons]; exact ih _ (upd_drp_mono _ _ _ _ hg h)

theorem updAll_drp_same (w : World) (l : List Id) (g : Obj → Obj) (u : Id) (hg : ∀ o, (g o).dropped = o.dropped) :
    ((w.updAll l g).heap u).dropped = (w.heap u).dropped := by
  unfold updAll
  induction l generalizing w with
  | nil => rfl
  | cons x r ih => simp only [List.foldl_cons]; rw [ih, upd_drp_same _ _ _ _ hg]

theorem updAll_drp_set (w : World) (l : List Id) (g : Obj → Obj) (u : Id) (hg : ∀ o, (g o).dropped = true) (hu : u ∈ l) :
    ((w.updAll l g).heap u).dropped = true := by
  unfold updAll
  induction l generalizing w with
  | nil => cases hu
  | cons x r ih =>
    simp only [List.foldl_cons]
    by_cases e : u ∈ r
    · exact ih _ e
    · have : u = x := by
        rcases List.mem_cons.1 hu with h | h
        · exact h
        · exact absurd h e
      subst this
      have := updAll_drp_mono (w.upd u g) r g u (fun o _ => hg o) (by simp [upd, hg])
      simpa [updAll] using this

@[simp] theorem setSlot_dropped (o : Obj) (s : Slot) (v : Option Id) : (setSlot o s v).dropped = o.dropped := by cases s <;> rfl
@[simp] theorem removeFromList_drp (w : World) (y x : Id) : ((w.removeFromList y).heap x).dropped = (w.heap x).dropped := by
  unfold removeFromList; split <;> (try rfl) <;> (by_cases h : x = y <;> simp [upd, Heap.set, h])
@[simp] theorem addToList_drp (w : World) (y x : Id) : ((w.addToList y).heap x).dropped = (w.heap x).dropped := by
  unfold addToList; split <;> (try rfl) <;> split <;> (try rfl) <;> (by_cases h : x = y <;> simp [upd, Heap.set, h])
@[simp] theorem dropMetadata_drp (w : World) (y x : Id) : ((w.dropMetadata y).heap x).dropped = (w.heap x).dropped := by
  unfold dropMetadata; split <;> (try rfl) <;> split <;> rfl
@[simp] theorem weakDrop_drp (w : World) (r : WRef) (x : Id) : ((w.weakDrop r).heap x).dropped = (w.heap x).dropped := by
  unfold weakDrop; cases r with
  | dangling => rfl
  | to y => simp only; split <;> rfl
@[simp] theorem initMeta_drp (w : World) (y x : Id) : ((w.initMeta y).heap x).dropped = (w.heap x).dropped := by
  unfold initMeta; split <;> (try rfl)
  by_cases h : x = y <;> simp [upd, updMeta, Heap.set, h]
@[simp] theorem cloneOk_drp (w : World) (y x : Id) : ((w.cloneOk y).heap x).dropped = (w.heap x).dropped := by
  unfold cloneOk; rw [removeFromList_drp]; exact upd_drp_same _ _ _ _ (fun _ => rfl)
@[simp] theorem fromT1_drp (w : World) (h : T1.Heap) (x : Id) : ((fromT1 w h).heap x).dropped = (w.heap x).dropped := rfl
@[simp] theorem raise_drp (w : World) (x : Id) : (w.raise.heap x).dropped = (w.heap x).dropped := by rw [s_raise_heap]
@[simp] theorem raiseLogged_drp (w : World) (x : Id) : (w.raiseLogged.heap x).dropped = (w.heap x).dropped := by rw [s_raiseLogged_heap]
@[simp] theorem freeBox_drp (w : World) (y x : Id) : ((w.freeBox y).heap x).dropped = (w.heap x).dropped := by
  by_cases h : x = y <;> simp [freeBox, upd, emit, Heap.set, h]
theorem putH_drp (w : World) (k : Nat) (y x : Id) : ((w.putH k y).heap x).dropped = (w.heap x).dropped := by
  unfold putH; split <;> rfl
theorem takeField_drp (o : Obj) : (takeField o).2.dropped = o.dropped := by
  unfold takeField
  repeat' split
  all_goals rfl
theorem foldl_free_drp (c : Cfg) (N : List Id) : ∀ (w : World) (x : Id),
    ((N.foldl (fun w x => (if c.weak then w.dropMetadata x else w).freeBox x) w).heap x).dropped = (w.heap x).dropped := by
  induction N with
  | nil => intro w x; rfl
  | cons y r ih => intro w x; simp only [List.foldl_cons]; rw [ih]; split <;> simp

macro "drp_tac" : tactic => `(tactic| (
  intro hx
  simpa [upd_drp_same, updAll_drp_same, putH_drp, foldl_free_drp, World.setH, World.setW, World.setK, World.startCollect, World.emit,
    World.push, World.updMeta] using hx))

set_option maxHeartbeats 8000000 in
theorem execOp_drp (c : Cfg) (w : World) (self wc : Option Id) (op : Op) (x : Id) :
    (w.heap x).dropped = true → ((execOp c w self wc op).heap x).dropped = true := by
  cases op with
  | fault kind n j => cases kind <;> exact fun h => h
  | unwrap k =>
    simp only [execOp]
    repeat' split
    all_goals (intro hx; first | exact hx | simpa [upd_drp_same, World.setH, World.push] using hx)
  | _ =>
    simp only [execOp]
    repeat' split
    all_goals drp_tac

theorem startDealloc_drp (c : Cfg) (w : World) (N : List Id) (x : Id) (hx : (w.heap x).dropped = true) :
    ((startDealloc c w N).heap x).dropped = true := by
  unfold startDealloc
  simp only []
  have h1 : ∀ W : World, ((W.updAll N fun o => { o with doomed := true }).heap x).dropped = (W.heap x).dropped :=
    fun W => updAll_drp_same W N (fun o : Obj => { o with doomed := true }) x (fun _ => rfl)
  split
  · exact updAll_drp_mono _ _ _ _ (fun _ _ => rfl) (by rw [h1]; exact hx)
  · rw [h1]; exact hx

theorem startDealloc_drp_set (c : Cfg) (w : World) (N : List Id) (hc : c.weak = true) (x : Id) (hx : x ∈ N) :
    ((startDealloc c w N).heap x).dropped = true := by
  unfold startDealloc
  simp only [hc, if_true]
  exact updAll_drp_set _ _ _ _ (fun _ => rfl) hx

theorem destroyLast_drp (c : Cfg) (w : World) (y x : Id) (hx : (w.heap x).dropped = true) :
    ((destroyLast c w y).heap x).dropped = true := by
  unfold destroyLast
  simp only []
  split
  · simp only [World.push_heap]
    apply upd_drp_mono _ _ _ _ (fun _ _ => rfl)
    simpa [upd_drp_same] using hx
  · simpa [upd_drp_same, World.push] using hx

set_option maxHeartbeats 16000000 in
/-- **The `dropped` flag is never cleared** by a step of the running machine. -/
theorem stepFrame_drp (c : Cfg) (w : World) (f : Frame) (x : Id) (hx : (w.heap x).dropped = true) (hlt : x < w.next) :
    ((stepFrame c w f).heap x).dropped = true := by
  cases f with
  | script ops self wc top =>
    cases ops with
    | nil => simp only [stepFrame]; exact hx
    | cons op ops =>
      simp only [stepFrame]
      have h := execOp_drp c (w.push (.script ops self wc top)) self wc op x hx
      split <;> exact h
  | collectPass =>
    simp only [stepFrame]
    generalize tracePhasesF _ _ _ _ _ = r
    obtain ⟨res, fault⟩ := r
    cases res with
    | panicked hh pcRest log => simp only []; revert hx; drp_tac
    | done s =>
      simp only []
      split
      · revert hx; drp_tac
      · split
        · revert hx; drp_tac
        · apply startDealloc_drp; revert hx; drp_tac
  | deallocDrop N r oD =>
    cases r with
    | cons y r =>
      simp only [stepFrame]
      split
      · simp only [World.push_heap]
        exact upd_drp_mono _ _ _ _ (fun _ _ => rfl) hx
      · exact hx
    | nil =>
      simp only [stepFrame]
      split
      · revert hx; drp_tac
      · simpa [foldl_free_drp] using hx
  | dropFields y unw =>
    simp only [stepFrame]
    have ht := takeField_drp (w.heap y)
    split
    · rename_i z o' hz
      rw [hz] at ht
      have ht' : o'.dropped = (w.heap y).dropped := ht
      by_cases e : x = y
      · subst e; simp [World.push, ht', hx]
      · simpa [World.push, World.upd, Heap.set, e] using hx
    · rename_i z o' hz
      rw [hz] at ht
      have ht' : o'.dropped = (w.heap y).dropped := ht
      rw [weakDrop_drp]
      by_cases e : x = y
      · subst e; simp [World.push, ht', hx]
      · simpa [World.push, World.upd, Heap.set, e] using hx
    · split <;> exact hx
  | dropCc y =>
    simp only [stepFrame]
    repeat' split
    all_goals first
      | (revert hx; drp_tac)
      | (apply destroyLast_drp; exact hx)
  | dropCcAfterFin y oF =>
    simp only [stepFrame]
    split
    · revert hx; drp_tac
    · apply destroyLast_drp; exact hx
  | finalizePass N r hasFin oldFin =>
    cases r with
    | nil =>
      simp only [stepFrame]
      split
      · apply startDealloc_drp; exact hx
      · revert hx; drp_tac
    | cons y r =>
      simp only [stepFrame]
      split
      · revert hx; drp_tac
      · exact hx
  | regInsert owner script k cap =>
    simp only [stepFrame]
    split
    · exact hx
    · split
      · revert hx; drp_tac
      · rename_i m hm hb
        have hgen : ∀ (idx : Nat) (om' : Obj), om'.dropped = (w.heap m).dropped →
            ((if (((({ w with nextAid := w.nextAid + 1 } : World).upd m fun _ => om').initMeta m).metas m).weak ≥ c.weakMax then
                ((({ w with nextAid := w.nextAid + 1 } : World).upd m fun _ => om').initMeta m).raise
              else ((((({ w with nextAid := w.nextAid + 1 } : World).upd m fun _ => om').initMeta m).updMeta m
                fun mm => { mm with weak := mm.weak + 1 }).removeFromList m).setK k (some (m, idx, w.nextAid))).heap x).dropped = true := by
          intro idx om' hom
          have hlv : ((({ w with nextAid := w.nextAid + 1 } : World).upd m fun _ => om').heap x).dropped = (w.heap x).dropped := by
            by_cases e : x = m
            · subst e; simpa using hom
            · simp [World.upd, Heap.set, e]
          split
          · rw [raise_drp, initMeta_drp, hlv]; exact hx
          · have : ∀ W : World, ((W.setK k (some (m, idx, w.nextAid))).heap x) = W.heap x := fun _ => rfl
            rw [this, removeFromList_drp]
            simp only [World.updMeta_heap]
            rw [initMeta_drp, hlv]; exact hx
        cases hfr : (w.heap m).afree with
        | nil => simp only []; refine hgen _ _ ?_; rfl
        | cons i fr => simp only []; refine hgen _ _ ?_; rfl
  | newAlloc k sp =>
    simp only [stepFrame]
    rw [putH_drp]
    have e : x ≠ w.next := Nat.ne_of_lt hlt
    simpa [World.emit, Heap.set, e] using hx
  | newCyclicAlloc k sp body selfw =>
    simp only [stepFrame]
    have e : x ≠ w.next := Nat.ne_of_lt hlt
    split <;> simpa [World.emit, World.push, World.updMeta, Heap.set, e] using hx
  | mapAlloc owner =>
    simp only [stepFrame]
    have e : x ≠ w.next := Nat.ne_of_lt hlt
    split
    · simp only [upd_drp_same _ _ (fun o : Obj => { o with cmap := some w.next }) _ (fun _ => rfl)]
      simpa [World.emit, Heap.set, e] using hx
    · simpa [World.emit, World.push, Heap.set, e] using hx
  | _ =>
    simp only [stepFrame]
    repeat' split
    all_goals (revert hx; drp_tac)

/-! ### Every member of a list under destruction is flagged -/

/-- With `weak-ptrs`: every member of the list of a `deallocate_list` in progress carries the `dropped` flag. -/
def DD (w : World) : Prop := ∀ N r d, Frame.deallocDrop N r d ∈ w.stack → ∀ x ∈ N, (w.heap x).dropped = true

theorem listed_lt {c : Cfg} {w : World} (ha : AllInv c w) {x : Id} (hx : x ∈ listed w.stack) : x < w.next := by
  have hb : (w.heap x).boxLive = true := by
    apply OI.boxLive_of_mark ha.inv.oi (x := x)
    rw [(ha.inv.oi.mList x).2 hx]; simp
  apply Nat.lt_of_not_le
  intro hle
  rw [ha.fresh x hle] at hb; cases hb

theorem mem_listed_of_dealloc {st : List Frame} {N r d} (h : Frame.deallocDrop N r d ∈ st) {x : Id} (hx : x ∈ N) : x ∈ listed st := by
  unfold listed; rw [List.mem_flatMap]; exact ⟨_, h, by simpa [Frame.listed] using hx⟩

/-- Generic preservation: the step pushed plain frames and cleared no flag. -/
theorem DD.plain {w w' : World} {f : Frame} {rest : List Frame} (h : DD w) (hs : w.stack = f :: rest)
    (hp : ∀ N r d, Frame.deallocDrop N r d ∈ w'.stack → Frame.deallocDrop N r d ∈ rest)
    (hm : ∀ x ∈ listed rest, (w.heap x).dropped = true → (w'.heap x).dropped = true) : DD w' := by
  intro N r d hmem x hx
  have h1 := hp N r d hmem
  exact hm x (mem_listed_of_dealloc h1 hx) (h N r d (by rw [hs]; exact List.mem_cons_of_mem _ h1) x hx)

theorem deallocDrop_nil_stack (c : Cfg) (w : World) (N : List Id) (oD : Bool) :
    (stepFrame c w (.deallocDrop N [] oD)).stack = w.stack ∨
    (stepFrame c w (.deallocDrop N [] oD)).stack = .deallocDrop N [] oD :: w.stack := by
  simp only [stepFrame]
  split
  · right; simp [World.push]
  · left; simp [foldl_free_stack]

theorem stepFrame_dd (c : Cfg) (w : World) (f : Frame) (rest : List Frame) (hc : c.weak = true) (ha : AllInv c w)
    (h : DD w) (hs : w.stack = f :: rest) : DD (stepFrame c { w with stack := rest } f) := by
  have hlt : ∀ x ∈ listed rest, x < w.next := fun x hx =>
    listed_lt ha (by rw [hs, listed_cons]; exact List.mem_append_right _ hx)
  have hmono : ∀ x ∈ listed rest, (w.heap x).dropped = true →
      ((stepFrame c { w with stack := rest } f).heap x).dropped = true :=
    fun x hx hd => stepFrame_drp c { w with stack := rest } f x hd (hlt x hx)
  -- frames that push a `deallocDrop` frame
  have hstart : ∀ (W : World) (N : List Id), W.stack = rest → (∀ x ∈ listed rest, (w.heap x).dropped = true → (W.heap x).dropped = true) →
      DD (startDealloc c W N) := by
    intro W N hW hWm N' r d hmem x hx
    rw [startDealloc_stack, hW] at hmem
    rcases List.mem_cons.1 hmem with e | e
    · cases e; exact startDealloc_drp_set c W N hc x hx
    · apply startDealloc_drp
      exact hWm x (mem_listed_of_dealloc e hx) (h N' r d (by rw [hs]; exact List.mem_cons_of_mem _ e) x hx)
  have hplain : PushedPlain rest (stepFrame c { w with stack := rest } f).stack → DD (stepFrame c { w with stack := rest } f) :=
    fun hp => h.plain hs (fun N r d hm => hp.dealloc_mem hm) hmono
  have hnd : (∀ N r d, Frame.deallocDrop N r d ∈ (stepFrame c { w with stack := rest } f).stack → Frame.deallocDrop N r d ∈ rest) →
      DD (stepFrame c { w with stack := rest } f) := fun hp => h.plain hs hp hmono
  cases f with
  | script ops self wc top =>
    cases ops with
    | nil => exact hplain (by simp only [stepFrame]; exact PushedPlain.refl)
    | cons op ops =>
      apply hplain
      simp only [stepFrame]
      obtain ⟨_, h2⟩ := execOp_plain c (({ w with stack := rest } : World).push (.script ops self wc top)) self wc op
      have h2' : PushedPlain rest (execOp c (({ w with stack := rest } : World).push (.script ops self wc top)) self wc op).stack :=
        PushedPlain.trans (PushedPlain.cons _ _ (by cases self <;> rfl) PushedPlain.refl) h2
      split <;> exact h2'
  | collectPass =>
    simp only [stepFrame] at hmono hplain ⊢
    generalize tracePhasesF _ _ _ _ _ = r at hmono hplain ⊢
    obtain ⟨res, fault⟩ := r
    cases res with
    | panicked hh pcRest log => exact hplain (by simp only []; pushed_tac)
    | done s =>
      simp only [] at hmono hplain ⊢
      split
      · rename_i he; simp only [he, if_true] at hplain; exact hplain (by pushed_tac)
      · split
        · rename_i he hf
          intro N' r d hmem x hx
          have hmem' : Frame.deallocDrop N' r d ∈ rest := by
            simp [World.push] at hmem; exact hmem
          have := hmono x (mem_listed_of_dealloc hmem' hx) (h N' r d (by rw [hs]; exact List.mem_cons_of_mem _ hmem') x hx)
          simpa [he, hf] using this
        · apply hstart _ _ rfl
          intro x hx hd
          simpa using hd
  | finalizePass N r hasFin oldFin =>
    cases r with
    | nil =>
      simp only [stepFrame] at hmono hplain ⊢
      split
      · exact hstart _ _ rfl (fun x _ hd => hd)
      · rename_i he; simp only [he] at hplain; exact hplain (by pushed_tac)
    | cons y r =>
      intro N' r' d hmem x hx
      have hmem' : Frame.deallocDrop N' r' d ∈ rest := by
        simp only [stepFrame] at hmem
        split at hmem <;> simp [World.push] at hmem <;> exact hmem
      exact hmono x (mem_listed_of_dealloc hmem' hx) (h N' r' d (by rw [hs]; exact List.mem_cons_of_mem _ hmem') x hx)
  | deallocDrop N r oD =>
    have hN : ∀ x ∈ N, (w.heap x).dropped = true := h N r oD (by rw [hs]; exact List.mem_cons_self ..)
    have hNlt : ∀ x ∈ N, x < w.next := fun x hx =>
      listed_lt ha (by rw [hs, listed_cons]; exact List.mem_append_left _ (by simpa [Frame.listed] using hx))
    cases r with
    | cons y r =>
      intro N' r' d hmem x hx
      have hd : (w.heap x).dropped = true ∧ x < w.next := by
        simp only [stepFrame] at hmem
        have : Frame.deallocDrop N' r' d = .deallocDrop N r oD ∨ Frame.deallocDrop N' r' d ∈ rest := by
          split at hmem <;> simp [World.push] at hmem <;> rcases hmem with e | e
          · left; simp [e]
          · right; exact e
          · left; simp [e]
          · right; exact e
        rcases this with e | e
        · cases e; exact ⟨hN x hx, hNlt x hx⟩
        · exact ⟨h N' r' d (by rw [hs]; exact List.mem_cons_of_mem _ e) x hx, hlt x (mem_listed_of_dealloc e hx)⟩
      exact stepFrame_drp c { w with stack := rest } _ x hd.1 hd.2
    | nil =>
      intro N' r' d hmem x hx
      have hd : (w.heap x).dropped = true ∧ x < w.next := by
        have : Frame.deallocDrop N' r' d = .deallocDrop N [] oD ∨ Frame.deallocDrop N' r' d ∈ rest := by
          rcases deallocDrop_nil_stack c ({ w with stack := rest } : World) N oD with e | e
          · rw [e] at hmem; right; exact hmem
          · rw [e] at hmem
            rcases List.mem_cons.1 hmem with e' | e'
            · left; exact e'
            · right; exact e'
        rcases this with e | e
        · cases e; exact ⟨hN x hx, hNlt x hx⟩
        · exact ⟨h N' r' d (by rw [hs]; exact List.mem_cons_of_mem _ e) x hx, hlt x (mem_listed_of_dealloc e hx)⟩
      exact stepFrame_drp c { w with stack := rest } _ x hd.1 hd.2
  | dropCc y =>
    apply hnd
    intro N' r' d hmem
    simp only [stepFrame] at hmem
    repeat' split at hmem
    all_goals first
      | (simpa [World.push] using hmem)
      | (obtain ⟨dd, hd⟩ := destroyLast_stack c ({ w with stack := rest } : World) y
         rw [hd] at hmem; simpa using hmem)
  | dropCcAfterFin y oF =>
    apply hnd
    intro N' r' d hmem
    simp only [stepFrame] at hmem
    split at hmem
    · simpa [World.push] using hmem
    · obtain ⟨dd, hd⟩ := destroyLast_stack c ({ w with stack := rest, finalizing := oF } : World) y
      rw [hd] at hmem; simpa using hmem
  | _ =>
    apply hplain
    simp only [stepFrame]
    repeat' split
    all_goals first
      | (pushed_tac; done)
      | (refine PushedPlain.trans ?_ (putH_pushed _ _ _); pushed_tac; done)

theorem reachableR_dd {c : Cfg} {nH nW nK : Nat} {w : World} (hc : c.weak = true) (h : ReachableR c nH nW nK w) : DD w := by
  induction h with
  | init => intro N r d hm; simp [World.init] at hm
  | top w op _ hs hm ih => intro N r d hmem; simp at hmem
  | step w hr hm ih =>
    have ha := reachable_all c nH nW nK w hr.reachable
    cases hs : w.stack with
    | nil =>
      have e : step c w = w := by unfold step; rw [hm]; simp only []; rw [hs]
      rw [e]; exact ih
    | cons f rest =>
      have e : step c w = stepFrame c { w with stack := rest } f := by unfold step; rw [hm]; simp only []; rw [hs]
      rw [e]
      exact stepFrame_dd c w f rest hc ha ih hs

/-- **`Weak::upgrade` only yields intact values** (panic-free histories, `weak-ptrs`): whenever a `Weak` to `x` reports a
non-zero strong count — i.e. `upgrade` would succeed — the box of `x` exists and its value has neither been destroyed nor
handed to its destructor, and is not under construction. -/
theorem upgrade_only_alive {c : Cfg} {nH nW nK : Nat} {w : World} (hc : c.weak = true) (h : ReachableR c nH nW nK w) (x : Id)
    (hu : w.weakStrong (.to x) ≠ 0) : (w.heap x).lv = (true, true) := by
  have ha := reachable_all c nH nW nK w h.reachable
  have hl := reachableR_life c nH nW nK w h
  have hdd := reachableR_dd hc h
  unfold weakStrong at hu
  simp only at hu
  split at hu
  · split at hu
    · exact absurd rfl hu
    · rename_i hacc hnot
      have hrc : (w.heap x).rc ≠ 0 := fun e => hnot (Or.inl e)
      have hdr : (w.heap x).dropped ≠ true := fun e => hnot (Or.inr e)
      have hb : (w.heap x).boxLive = true := OI.boxLive_of_rc ha.inv.oi (x := x) hrc
      cases hv : (w.heap x).valLive with
      | true => simp [Obj.lv, hb, hv]
      | false =>
        exfalso
        have hown := hl.np x (by simp [Obj.lv, hb, hv])
        unfold ownedDead at hown
        rw [List.mem_flatMap] at hown
        obtain ⟨f, hf, hxf⟩ := hown
        simp only [Frame.own, List.mem_append] at hxf
        rcases hxf with hz | hd
        · have : x ∈ zeroed w.stack := by unfold zeroed; rw [List.mem_flatMap]; exact ⟨f, hf, hz⟩
          exact hrc (ha.inv.oi.zero x this).2.1
        · cases f <;> simp [Frame.dd] at hd
          rename_i N r d
          exact hdr (hdd N r d hf x hd.1)
  · exact absurd rfl hu

end RustCc
