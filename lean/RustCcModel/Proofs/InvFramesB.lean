import RustCcModel.Proofs.InvFrames0
/-! The invariant `Inv` through the ownership frames (`Cc::drop`, `Cc::new`, `new_cyclic`, the cleaner map). -/
namespace RustCc
open World
open T1 (Mark)

/-- Assemble `Inv` from an object invariant over explicitly given lists. -/
theorem Inv.of {w' : World} {h : Id → Core} {pc L Z Cy : List Id} (hoi : OI h pc L Z Cy) (hc : w'.cores = h) (hp : w'.pc = pc)
    (hL : listed w'.stack = L) (hZ : zeroed w'.stack = Z) (hCy : cycs w'.stack = Cy) (hwf : stackWF w'.stack = true)
    (hpin : ∀ x ∈ pinned w'.stack, x ∉ L) : Inv w' := by
  subst hc hp hL hZ hCy
  exact ⟨hoi, hwf, hpin⟩

theorem removeFromList_mark_self (w : World) (x : Id) (hm : (w.heap x).mark = .non ∨ (w.heap x).mark = .pc) :
    ((w.removeFromList x).heap x).mark = .non := by
  unfold removeFromList
  split
  · simp [upd]
  · rename_i h
    rcases hm with h' | h'
    · exact h'
    · exact absurd h' h

theorem destroyLast_inv (c : Cfg) (w : World) (x : Id) (hi : Inv w) (hr : (w.heap x).rc = 1)
    (hm : (w.heap x).mark = .non ∨ (w.heap x).mark = .pc) : Inv (destroyLast c w x) := by
  have hr0 : (w.cores x).rc ≠ 0 := by show (w.heap x).rc ≠ 0; omega
  have hbl : (w.heap x).boxLive = true := OI.boxLive_of_rc hi.oi hr0
  have hz : x ∉ zeroed w.stack := OI.not_mem_Z_of_rc hi.oi hr0
  have h1 : WOI ((w.upd x fun o => { o with rc := o.rc - 1 }).removeFromList x) (listed w.stack) (zeroed w.stack) (cycs w.stack) :=
    (WOI.decr hi.oi x).removeFromList x
  have h2 := OI.consZ h1 x
    (by show (((w.upd x fun o => { o with rc := o.rc - 1 }).removeFromList x).heap x).boxLive = true; simpa [upd] using hbl)
    (by show (((w.upd x fun o => { o with rc := o.rc - 1 }).removeFromList x).heap x).rc = 0; simp [upd, hr])
    (by show (((w.upd x fun o => { o with rc := o.rc - 1 }).removeFromList x).heap x).mark = .non
        exact removeFromList_mark_self _ x (by simpa [upd] using hm))
    hz
  unfold destroyLast
  simp only
  split
  · refine Inv.of h2 ?_ ?_ ?_ ?_ ?_ ?_ ?_
    · rw [cores_push, cores_upd_neutral _ _ _ rfl]; rfl
    · rfl
    · simp [listed_cons, Frame.listed]
    · simp [zeroed_cons, Frame.zeroed]
    · simp [cycs_cons, Frame.cyc]
    · simp [stackWF, Frame.isPass]; exact hi.wf
    · simp [pinned_cons, Frame.pinned]; exact hi.pin
  · refine Inv.of h2 ?_ ?_ ?_ ?_ ?_ ?_ ?_
    · rfl
    · rfl
    · simp [listed_cons, Frame.listed]
    · simp [zeroed_cons, Frame.zeroed]
    · simp [cycs_cons, Frame.cyc]
    · simp [stackWF, Frame.isPass]; exact hi.wf
    · simp [pinned_cons, Frame.pinned]; exact hi.pin

/-- A pointer held by the top frame: the count of its target is not 0. -/
theorem rc_of_held {w : World} (hc : Counts w) {f : Frame} {rest : List Frame} (hs : w.stack = f :: rest) {x : Id}
    (hx : x ∈ f.holds) : (w.heap x).rc ≠ 0 := by
  apply rc_of_refs_pos hc
  have h1 := count_pos_of_mem hx
  unfold refs
  rw [hs, held_cons, List.count_append]
  omega

theorem WOI.decrAdd {w : World} {L Z Cy : List Id} (h : WOI w L Z Cy) (x : Id) (hr : (w.heap x).rc ≠ 0) (hr1 : (w.heap x).rc ≠ 1) :
    WOI ((w.upd x fun o => { o with rc := o.rc - 1 }).addToList x) L Z Cy := by
  have h1 := WOI.decr h x
  have hr' : ((w.upd x fun o => { o with rc := o.rc - 1 }).cores x).rc ≠ 0 := by
    show ((w.upd x fun o => { o with rc := o.rc - 1 }).heap x).rc ≠ 0
    simp; omega
  exact WOI.addToList h1 x (OI.boxLive_of_rc h1 hr') (OI.not_mem_Z_of_rc h1 hr')

theorem stepFrame_inv_dropCc (c : Cfg) (w : World) (x : Id) (rest : List Frame) (hc : Counts w) (hi : Inv w)
    (hs : w.stack = .dropCc x :: rest) : Inv (stepFrame c { w with stack := rest } (.dropCc x)) := by
  have h0 := hi.pop hs rfl
  have hr : (w.heap x).rc ≠ 0 := rc_of_held hc hs (by simp [Frame.holds])
  simp only [stepFrame]
  split
  · exact h0.step (WOI.decr h0.oi x) [] (by plain_tac) (by simp)
  · rename_i hmk
    split
    · rename_i hr1
      split
      · have hxl : x ∉ listed rest := fun hl => hmk (Or.inl ((h0.oi.mList x).2 hl))
        refine Inv.of h0.oi ?_ ?_ ?_ ?_ ?_ ?_ ?_
        · rw [cores_push, cores_upd_neutral _ _ _ rfl]; rfl
        · rfl
        · simp [listed_cons, Frame.listed]
        · simp [zeroed_cons, Frame.zeroed]
        · simp [cycs_cons, Frame.cyc]
        · simp [stackWF, Frame.isPass]; exact h0.wf
        · simp [pinned_cons, Frame.pinned]; exact ⟨hxl, h0.pin⟩
      · refine destroyLast_inv c _ x h0 hr1 ?_
        show (w.heap x).mark = .non ∨ (w.heap x).mark = .pc
        cases hmm : (w.heap x).mark <;> simp_all
    · rename_i hr1
      exact h0.step (WOI.decrAdd h0.oi x hr hr1) [] (by plain_tac) (by simp)

theorem stepFrame_inv_dropCcAfterFin (c : Cfg) (w : World) (x : Id) (oldFin : Bool) (rest : List Frame) (hc : Counts w) (hi : Inv w)
    (hs : w.stack = .dropCcAfterFin x oldFin :: rest) : Inv (stepFrame c { w with stack := rest } (.dropCcAfterFin x oldFin)) := by
  obtain ⟨hoi, hwf, hpin⟩ := hi.popped hs
  simp only [Frame.listed, Frame.zeroed, Frame.cyc, Frame.pinned, List.nil_append] at hoi hpin
  have h0 : Inv { w with stack := rest } := ⟨hoi, stackWF_tail hwf, fun y hy => hpin y (List.mem_append_right _ hy)⟩
  have hxl : x ∉ listed rest := hpin x (by simp)
  have hr : (w.heap x).rc ≠ 0 := rc_of_held hc hs (by simp [Frame.holds])
  simp only [stepFrame]
  split
  · rename_i hr1
    exact h0.step (WOI.same (WOI.decrAdd h0.oi x hr hr1) rfl rfl) [] (by plain_tac) (by simp)
  · rename_i hr1
    have hr1' : (w.heap x).rc = 1 := by
      by_cases e : (w.heap x).rc = 1
      · exact e
      · exact absurd e hr1
    have h1 : Inv { ({ w with stack := rest } : World) with finalizing := oldFin } :=
      h0.step_same rfl rfl [] (by plain_tac) rfl
    refine destroyLast_inv c _ x h1 hr1' ?_
    show (w.heap x).mark = .non ∨ (w.heap x).mark = .pc
    have hnl : (w.heap x).mark ≠ .inList := fun e => hxl ((h0.oi.mList x).1 e)
    have hnq : (w.heap x).mark ≠ .inQueue := h0.oi.noQueue x
    cases hmm : (w.heap x).mark <;> simp_all

theorem stepFrame_inv_afterDropValue (c : Cfg) (w : World) (x : Id) (oldDrop : Bool) (rest : List Frame) (hi : Inv w)
    (hs : w.stack = .afterDropValue x oldDrop :: rest) : Inv (stepFrame c { w with stack := rest } (.afterDropValue x oldDrop)) := by
  obtain ⟨hoi, hwf, hpin⟩ := hi.popped hs
  simp only [Frame.listed, Frame.zeroed, Frame.cyc, Frame.pinned, List.nil_append, List.cons_append] at hoi hpin
  simp only [stepFrame]
  split
  · refine Inv.of hoi rfl rfl ?_ ?_ ?_ hwf ?_
    · simp [listed_cons, Frame.listed]
    · simp [zeroed_cons, Frame.zeroed]
    · simp [cycs_cons, Frame.cyc]
    · simpa [pinned_cons, Frame.pinned] using hpin
  · have hnd := hoi.ownNodup
    simp only [List.cons_append] at hnd
    have hz : x ∉ zeroed rest := fun hz => (List.nodup_cons.1 hnd).1 (List.mem_append_left _ hz)
    have hm : (w.heap x).mark = .non := (hoi.zero x (List.mem_cons_self ..)).2.2
    have hoi' : WOI { w with stack := rest } (listed rest) (zeroed rest) (cycs rest) :=
      hoi.weaken (List.sublist_cons_self ..) (List.Sublist.refl _) (cycs_sub_zeroed rest)
    have h0 : Inv { w with stack := rest } := ⟨hoi', stackWF_tail hwf, hpin⟩
    split
    · refine h0.step (WOI.same (WOI.freeBox (w := World.dropMetadata { w with stack := rest } x)
        (WOI.same h0.oi (cores_dropMetadata _ x) (pc_dropMetadata _ x)) x ?_ hz) rfl rfl) [] (by plain_tac) (by simp)
      show ((World.dropMetadata { w with stack := rest } x).cores x).mark = .non
      rw [cores_dropMetadata]; exact hm
    · exact h0.step (WOI.same (WOI.freeBox h0.oi x hm hz) rfl rfl) [] (by plain_tac) (by simp)

/-! ### Allocation -/

theorem cores_of_heap_set {w w' : World} (x : Id) (o : Obj) (hh : w'.heap = w.heap.set x o) : w'.cores = setC w.cores x o.core := by
  funext y
  by_cases hy : y = x
  · subst hy; simp [World.cores, setC, hh]
  · simp [World.cores, setC, hh, hy, Heap.set]

/-- Allocation of a box at the next identity. -/
theorem Inv.alloc {w w' : World} (hi : Inv w) (hfr : (w.heap w.next).boxLive = false) (o : Obj) (hm : o.mark = .non)
    (hb : o.boxLive = true) (hh : w'.heap = w.heap.set w.next o) (hp : w'.pc = w.pc) (hst : w'.stack = w.stack) : Inv w' := by
  refine hi.step ?_ [] (by plain_tac) (by simpa using hst)
  unfold WOI
  rw [cores_of_heap_set w.next o hh, hp]
  exact OI.alloc hi.oi w.next o.core hfr hm hb

theorem Inv.putH {w : World} (hi : Inv w) (k : Nat) (x : Id) : Inv (w.putH k x) := by
  unfold World.putH
  split
  · rename_i old _; inv_same hi [.dropCc old]
  · inv_same hi []

theorem Inv.weakDrop {w : World} (hi : Inv w) (r : WRef) : Inv (w.weakDrop r) :=
  hi.step_same (cores_weakDrop w r) (weakDrop_pc w r) [] (by plain_tac) (by simp)

theorem stepFrame_inv_newAlloc (c : Cfg) (w : World) (k : Nat) (sp : NewSpec) (rest : List Frame) (hi : Inv w) (hfr : Fresh w)
    (hs : w.stack = .newAlloc k sp :: rest) : Inv (stepFrame c { w with stack := rest } (.newAlloc k sp)) := by
  have h0 := hi.pop hs rfl
  simp only [stepFrame]
  refine Inv.putH ?_ k _
  exact h0.alloc (hfr w.next (Nat.le_refl _)) (newObj c { w with stack := rest } sp) rfl rfl rfl rfl rfl

theorem Inv.updN {w : World} (hi : Inv w) (x : Id) (F : Obj → Obj) (hF : (F (w.heap x)).core = (w.heap x).core) : Inv (w.upd x F) :=
  hi.step (WOI.updN hi.oi x F hF) [] (by plain_tac) (by simp)

theorem Inv.pushPlain {w : World} (hi : Inv w) (f : Frame) (hp : f.plain = true) : Inv (w.push f) :=
  hi.step_same rfl rfl [f] (by intro g hg; simp at hg; subst hg; exact hp) rfl

theorem stepFrame_inv_mapAlloc (c : Cfg) (w : World) (owner : Id) (rest : List Frame) (hi : Inv w) (hfr : Fresh w)
    (hs : w.stack = .mapAlloc owner :: rest) : Inv (stepFrame c { w with stack := rest } (.mapAlloc owner)) := by
  have h0 := hi.pop hs rfl
  simp only [stepFrame]
  split
  · refine Inv.updN ?_ _ _ rfl
    exact h0.alloc (hfr w.next (Nat.le_refl _)) _ rfl rfl rfl rfl rfl
  · refine Inv.pushPlain ?_ _ rfl
    exact h0.alloc (hfr w.next (Nat.le_refl _)) _ rfl rfl rfl rfl rfl

theorem Inv.raiseLogged {w : World} (hi : Inv w) : Inv w.raiseLogged :=
  hi.step_same (cores_raiseLogged w) (pc_raiseLogged w) [] (by plain_tac) (by simp)

theorem Inv.raise {w : World} (hi : Inv w) : Inv w.raise :=
  hi.step_same (cores_raise w) (pc_raise w) [] (by plain_tac) (by simp)

/-- Allocation of the box of `new_cyclic` (count 0, value not initialised), owned by the pushed `newCyclicEnd` frame. -/
theorem Inv.allocCyc {w w' : World} (hi : Inv w) (hfr : (w.heap w.next).boxLive = false) (o : Obj) (hm : o.mark = .non)
    (hb : o.boxLive = true) (hr : o.rc = 0) (hv : o.valLive = false) (k : Nat) (sp : NewSpec) (selfw : Option Nat)
    (hh : w'.heap = w.heap.set w.next o) (hp : w'.pc = w.pc) (hst : w'.stack = .newCyclicEnd k w.next sp selfw :: w.stack) :
    Inv w' := by
  have hz : w.next ∉ zeroed w.stack := fun hz => by
    have := (hi.oi.zero _ hz).1
    rw [show (w.cores w.next).boxLive = (w.heap w.next).boxLive from rfl, hfr] at this
    cases this
  have ha := OI.alloc hi.oi w.next o.core hfr hm hb
  have h2 := OI.consZ ha w.next (by rw [setC_same]; exact hb) (by rw [setC_same]; exact hr) (by rw [setC_same]; exact hm) hz
  have h3 := OI.consCy h2 w.next (List.mem_cons_self ..) (by rw [setC_same]; exact hv)
  refine Inv.of h3 (cores_of_heap_set _ o hh) hp ?_ ?_ ?_ ?_ ?_
  · rw [hst]; simp [listed_cons, Frame.listed]
  · rw [hst]; simp [zeroed_cons, Frame.zeroed]
  · rw [hst]; simp [cycs_cons, Frame.cyc]
  · rw [hst]; simp [stackWF, Frame.isPass]; exact hi.wf
  · rw [hst]; simp [pinned_cons, Frame.pinned]; exact hi.pin

theorem stepFrame_inv_newCyclicAlloc (c : Cfg) (w : World) (k : Nat) (sp : NewSpec) (body : Nat) (selfw : Option Nat)
    (rest : List Frame) (hi : Inv w) (hfr : Fresh w) (hs : w.stack = .newCyclicAlloc k sp body selfw :: rest) :
    Inv (stepFrame c { w with stack := rest } (.newCyclicAlloc k sp body selfw)) := by
  have h0 := hi.pop hs rfl
  simp only [stepFrame]
  split
  · refine Inv.raiseLogged ?_
    exact h0.allocCyc (hfr w.next (Nat.le_refl _)) _ rfl rfl rfl rfl k sp selfw rfl rfl rfl
  · refine Inv.pushPlain ?_ _ rfl
    exact h0.allocCyc (hfr w.next (Nat.le_refl _)) _ rfl rfl rfl rfl k sp selfw rfl rfl rfl

/-- `increment_counter()` at the end of `new_cyclic`, the value being written: the box is live and no frame owns it any more. -/
theorem Inv.incrInit {w : World} (hi : Inv w) (x : Id) (hb : (w.heap x).boxLive = true) (hz : x ∉ zeroed w.stack) :
    Inv (w.upd x fun o => { o with valLive := true, rc := o.rc + 1 }) := by
  refine hi.step (WOI.upd hi.oi x _ rfl rfl rfl ?_ ?_) [] (by plain_tac) (by simp)
  · intro h
    rcases h with h | h
    · rw [hb] at h; cases h
    · exact absurd h hz
  · intro h; exact absurd (hi.oi.cycZ x h) hz

theorem stepFrame_inv_newCyclicEnd (c : Cfg) (w : World) (k : Nat) (id : Id) (sp : NewSpec) (selfw : Option Nat)
    (rest : List Frame) (hi : Inv w) (hs : w.stack = .newCyclicEnd k id sp selfw :: rest) :
    Inv (stepFrame c { w with stack := rest } (.newCyclicEnd k id sp selfw)) := by
  obtain ⟨hoi, hwf, hpin⟩ := hi.popped hs
  simp only [Frame.listed, Frame.zeroed, Frame.cyc, Frame.pinned, List.nil_append, List.cons_append] at hoi hpin
  have hR : Inv (World.push { w with stack := rest } (.newCyclicEnd k id sp selfw)) := by
    refine Inv.of hoi rfl rfl ?_ ?_ ?_ hwf ?_
    · simp [push, listed_cons, Frame.listed]
    · simp [push, zeroed_cons, Frame.zeroed]
    · simp [push, cycs_cons, Frame.cyc]
    · simpa [push, pinned_cons, Frame.pinned] using hpin
  have hnd := hoi.ownNodup
  simp only [List.cons_append] at hnd
  have hz : id ∉ zeroed rest := fun hz => (List.nodup_cons.1 hnd).1 (List.mem_append_left _ hz)
  have hbl : (w.heap id).boxLive = true := (hoi.zero id (List.mem_cons_self ..)).1
  have hoi' : WOI { w with stack := rest } (listed rest) (zeroed rest) (cycs rest) :=
    hoi.weaken (List.sublist_cons_self ..) (List.sublist_cons_self ..) (cycs_sub_zeroed rest)
  have h0 : Inv { w with stack := rest } := ⟨hoi', stackWF_tail hwf, hpin⟩
  have hA : Inv (World.putH (World.weakDrop (World.upd { w with stack := rest } id fun o => { o with valLive := true, rc := o.rc + 1 }) (.to id)) k id) :=
    Inv.putH (Inv.weakDrop (Inv.incrInit h0 id hbl hz) _) k id
  have hB : ∀ j, Inv (World.putH (World.weakDrop (World.upd (World.upd (World.updMeta { w with stack := rest } id fun m => { m with weak := m.weak + 1 }) id
      fun o => { o with wslots := o.wslots.set j (some id) }) id fun o => { o with valLive := true, rc := o.rc + 1 }) (.to id)) k id) := by
    intro j
    have h1 : Inv (World.updMeta { w with stack := rest } id fun m => { m with weak := m.weak + 1 }) :=
      h0.step_same rfl rfl [] (by plain_tac) rfl
    have h2 := Inv.updN h1 id (fun o => { o with wslots := o.wslots.set j (some id) }) rfl
    refine Inv.putH (Inv.weakDrop (Inv.incrInit h2 id ?_ hz) _) k id
    simpa [upd, updMeta] using hbl
  cases selfw with
  | none =>
    simp only [stepFrame]
    repeat' split
    all_goals first
      | exact hR.raise
      | exact hA
      | exact hB _
  | some j =>
    simp only [stepFrame]
    repeat' split
    all_goals first
      | exact hR.raise
      | exact hA
      | exact hB _

end RustCc
