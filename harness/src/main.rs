//! Verification harness for rust-cc: runs line-protocol programs against the real crate.

mod alloc;
mod interp;
mod ops;
mod probes;
mod probes2;
#[cfg(feature = "derive")]
mod derive_gen;

use std::io::{BufRead, Write};

#[global_allocator]
static GLOBAL: alloc::Instrumented = alloc::Instrumented;

struct ProgramSrc {
    name: String,
    feat: (bool, bool, bool, bool),
    tables: (usize, usize, usize),
    scripts: Vec<(usize, Vec<ops::Op>)>,
    ops: Vec<Option<ops::Op>>,
    bad_scripts: usize,
}

fn compiled_feat() -> (bool, bool, bool, bool) {
    (cfg!(feature = "fin"), cfg!(feature = "weak"), cfg!(feature = "clean"), cfg!(feature = "auto"))
}

fn run_program(p: ProgramSrc, out: &mut Vec<String>) {
    out.push(format!("== {}", p.name));
    if p.feat != compiled_feat() {
        out.push(format!("bad-feat compiled={:?}", compiled_feat()));
        return;
    }
    for _ in 0..p.bad_scripts {
        out.push("bad-script".to_string());
    }
    let handle = std::thread::Builder::new()
        .stack_size(256 << 20)
        .spawn(move || {
            let mut lines: Vec<String> = Vec::new();
            alloc::install();
            {
                let n = p.scripts.iter().map(|(i, _)| i + 1).max().unwrap_or(1);
                let mut scripts: Vec<Vec<ops::Op>> = vec![Vec::new(); n];
                for (i, s) in p.scripts.into_iter() {
                    scripts[i] = s;
                }
                let feat = interp::Feat { fin: p.feat.0, weak: p.feat.1, clean: p.feat.2, auto: p.feat.3 };
                let it = interp::Interp::new(feat, scripts, p.tables.0, p.tables.1, p.tables.2);
                it.install();
                for op in p.ops.iter() {
                    match op {
                        Some(op) => {
                            let line = it.exec_top(op);
                            alloc::bypass(|| lines.push(line.clone()));
                        }
                        None => alloc::bypass(|| lines.push("bad-op".to_string())),
                    }
                }
                it.finish();
                interp::Interp::uninstall();
                // the interpreter (tables are empty now) is leaked: nothing of it may run at thread exit
                std::mem::forget(it);
            }
            let tracker = alloc::take();
            (lines, tracker)
        })
        .expect("spawn");
    match handle.join() {
        Ok((lines, tracker)) => {
            out.extend(lines);
            alloc::release(tracker);
        }
        Err(_) => out.push("!harness-thread-panicked".to_string()),
    }
    out.push("-- end".to_string());
}

fn sizes_line() -> String {
    use rust_cc::Cc;
    // measured on a scratch thread so that the collector state of program threads is untouched
    std::thread::spawn(|| {
        let before = rust_cc::state::allocated_bytes().unwrap();
        let it = interp::Interp::new(interp::Feat { fin: false, weak: false, clean: false, auto: false }, vec![], 1, 1, 1);
        it.install();
        let node = it.probe_node();
        let cc = Cc::new(node);
        let node_size = rust_cc::state::allocated_bytes().unwrap() - before;
        let map_size = interp::probe_map_size();
        std::mem::forget(cc);
        interp::Interp::uninstall();
        std::mem::forget(it);
        let (hs, ha) = rust_cc::verif_hooks::header_layout();
        format!("sizes node={} map={} hdr={},{}", node_size, map_size, hs, ha)
    })
    .join()
    .unwrap()
}

fn main() {
    std::panic::set_hook(Box::new(|_| {}));
    let args: Vec<String> = std::env::args().collect();
    let mode = args.get(1).map(|s| s.as_str()).unwrap_or("run");
    match mode {
        "sizes" => {
            println!("{}", sizes_line());
            let f = compiled_feat();
            println!("feat fin={} weak={} clean={} auto={} debug={}", f.0 as u8, f.1 as u8, f.2 as u8, f.3 as u8, cfg!(debug_assertions) as u8);
        }
        "run" => {
            // measured once, on a scratch thread
            let ms = std::thread::spawn(interp::probe_map_size).join().unwrap_or(0);
            alloc::MAP_BOX_SIZE.store(ms, std::sync::atomic::Ordering::Relaxed);
            let stdin = std::io::stdin();
            let mut out: Vec<String> = Vec::new();
            let mut cur: Option<ProgramSrc> = None;
            let mut running = false;
            let stdout = std::io::stdout();
            let nthreads: usize = std::env::var("VERIF_THREADS").ok().and_then(|v| v.parse().ok()).unwrap_or(1);
            let mut pending: Vec<ProgramSrc> = Vec::new();
            for line in stdin.lock().lines() {
                let line = line.unwrap();
                let toks: Vec<&str> = line.split_whitespace().collect();
                if toks.is_empty() || toks[0] == "#" {
                    continue;
                }
                match toks[0] {
                    "program" => {
                        cur = Some(ProgramSrc {
                            name: toks[1..].join(" "),
                            feat: (true, false, false, true),
                            tables: (6, 4, 4),
                            scripts: Vec::new(),
                            ops: Vec::new(),
                            bad_scripts: 0,
                        });
                        running = false;
                    }
                    "consts" | "sizes" if !running => {}
                    "feat" if !running => {
                        if let Some(p) = cur.as_mut() {
                            for t in &toks[1..] {
                                match t.split_once('=') {
                                    Some(("fin", v)) => p.feat.0 = v == "1",
                                    Some(("weak", v)) => p.feat.1 = v == "1",
                                    Some(("clean", v)) => p.feat.2 = v == "1",
                                    Some(("auto", v)) => p.feat.3 = v == "1",
                                    _ => {}
                                }
                            }
                        }
                    }
                    "tables" if !running => {
                        if let (Some(p), [_, a, b, c]) = (cur.as_mut(), toks.as_slice()) {
                            p.tables = (a.parse().unwrap_or(6), b.parse().unwrap_or(4), c.parse().unwrap_or(4));
                        }
                    }
                    "script" if !running => {
                        if let Some(p) = cur.as_mut() {
                            match (toks.get(1).and_then(|t| t.parse::<usize>().ok()), ops::parse_script(&toks[2.min(toks.len())..])) {
                                (Some(i), Some(s)) => p.scripts.push((i, s)),
                                _ => p.bad_scripts += 1,
                            }
                        }
                    }
                    "begin" => running = true,
                    "end" => {
                        if let Some(p) = cur.take() {
                            if nthreads <= 1 {
                                run_program(p, &mut out);
                                let mut lock = stdout.lock();
                                for l in out.drain(..) {
                                    let _ = writeln!(lock, "{}", l);
                                }
                            } else {
                                pending.push(p);
                            }
                        }
                        running = false;
                    }
                    _ => {
                        if let (true, Some(p)) = (running, cur.as_mut()) {
                            p.ops.push(ops::parse_op(&toks));
                        } else {
                            println!("bad-header");
                        }
                    }
                }
            }
            if nthreads > 1 {
                // independent programs on concurrently running threads (each program still gets its own thread,
                // hence its own collector); output in program order
                let n = pending.len();
                let queue = std::sync::Arc::new(std::sync::Mutex::new(pending.into_iter().enumerate().collect::<Vec<_>>()));
                let results = std::sync::Arc::new(std::sync::Mutex::new(vec![Vec::<String>::new(); n]));
                let mut workers = Vec::new();
                for _ in 0..nthreads {
                    let queue = queue.clone();
                    let results = results.clone();
                    workers.push(std::thread::spawn(move || loop {
                        let item = queue.lock().unwrap().pop();
                        let Some((i, p)) = item else { break };
                        let mut o = Vec::new();
                        run_program(p, &mut o);
                        results.lock().unwrap()[i] = o;
                    }));
                }
                for w in workers {
                    let _ = w.join();
                }
                let mut lock = stdout.lock();
                for o in results.lock().unwrap().iter() {
                    for l in o {
                        let _ = writeln!(lock, "{}", l);
                    }
                }
            }
        }
        "words" => probes::words(),
        "containers" => probes2::containers(),
        "layout" => probes2::layout(),
        "forward" => probes2::forward(),
        #[cfg(feature = "derive")]
        "derive" => derive_gen::run(),
        "teardown" => probes2::teardown(),
        "clonefrom" => probes2::clone_from_probe(),
        "bigbuf" => probes2::bigbuf(),
        "policy" => probes::policy(),
        "lists" => probes::lists(),
        other => {
            eprintln!("unknown mode {}", other);
            std::process::exit(2);
        }
    }
}
