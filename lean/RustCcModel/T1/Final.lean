import RustCcModel.T1.Phase2b
namespace T1

/-! ## Sums over duplicate-free sub-collections -/

theorem sum_filter_split (f : Nat → Nat) (p : Nat → Bool) (l : List Nat) :
    (l.map f).sum = ((l.filter p).map f).sum + ((l.filter (fun a => !p a)).map f).sum := by
  induction l with
  | nil => simp
  | cons a l ih =>
    by_cases h : p a
    · simp [List.filter, h, ih]; omega
    · simp [List.filter, h, ih]; omega

theorem sum_sub (f : Nat → Nat) (ds objs : List Nat) (hd : ds.Nodup) (ho : objs.Nodup)
    (hsub : ∀ u ∈ ds, u ∈ objs) :
    (objs.map f).sum = (ds.map f).sum + ((objs.filter (fun a => !decide (a ∈ ds))).map f).sum := by
  rw [sum_filter_split f (fun a => decide (a ∈ ds)) objs]
  congr 1
  have hp : (objs.filter (fun a => decide (a ∈ ds))).Perm ds := by
    apply (List.perm_ext_iff_of_nodup (List.Nodup.sublist List.filter_sublist ho) hd).2
    intro a; simp only [List.mem_filter, decide_eq_true_eq]
    exact ⟨fun h => h.2, fun h => ⟨hsub a h, h⟩⟩
  exact (hp.map f).sum_nat

theorem sum_eq_zero_forall (f : Nat → Nat) (l : List Nat) (h : (l.map f).sum = 0) :
    ∀ u ∈ l, f u = 0 := by
  induction l with
  | nil => intro u hu; cases hu
  | cons a l ih =>
    simp at h
    intro u hu
    rcases List.mem_cons.1 hu with h' | h'
    · subst h'; exact h.1
    · exact ih h.2 u h'

/-! ## Exact reference counts -/

/-- `objs` = the allocated objects whose value is alive; `ext x` = number of references to `x`
held outside the heap (by the program, by temporaries); every reference count is exactly the
number of references. -/
structure Exact (h0 : Heap) (objs : List Nat) (ext : Nat → Nat) : Prop where
  nodup : objs.Nodup
  closed : ∀ u ∈ objs, ∀ y ∈ (h0 u).edges, y ∈ objs
  rc : ∀ x, (h0 x).rc = ext x + (objs.map (fun u => (h0 u).edges.count x)).sum
                        + (objs.map (fun u => (h0 u).uedges.count x)).sum

theorem ctx_of_exact (h0 : Heap) (objs : List Nat) (ext : Nat → Nat) (hex : Exact h0 objs ext) :
    Ctx h0 (fun u => u ∈ objs) := by
  refine ⟨hex.closed, ?_⟩
  intro ds hd hL y
  have := sum_sub (fun u => (h0 u).edges.count y) ds objs hd hex.nodup hL
  have hr := hex.rc y
  unfold inCount
  omega

/-! ## Monotonicity of the non-root list during root tracing -/

theorem rootObj_nonroot_sub (s : TS) (x : Nat) : ∀ z ∈ (rootObj s x).nonroot, z ∈ s.nonroot := by
  intro z hz; unfold rootObj at hz
  exact foldl_rootEdge_nonroot_sub _ (unmark s x) z hz

theorem rootsList_nonroot_sub (R : List Nat) : ∀ (s : TS), ∀ z ∈ (rootsList s R).nonroot, z ∈ s.nonroot := by
  induction R with
  | nil => intro s z hz; exact hz
  | cons x R ih => intro s z hz; exact rootObj_nonroot_sub s x z (ih _ z hz)

theorem rootsQueue_nonroot_sub (fuel : Nat) : ∀ (s : TS), ∀ z ∈ (rootsQueue fuel s).nonroot, z ∈ s.nonroot := by
  induction fuel with
  | zero => intro s z hz; exact hz
  | succ n ih =>
    intro s z hz
    unfold rootsQueue at hz
    cases hq : s.queue with
    | nil => simp only [hq] at hz; exact hz
    | cons x q =>
      simp only [hq] at hz
      exact rootObj_nonroot_sub { s with queue := q } x z (ih _ z hz)

/-! ## T1: the reclaim set is closed under predecessors and has no outside reference -/

theorem tracePhases_safe (h0 : Heap) (objs : List Nat) (ext : Nat → Nat) (P : List Nat) (fuel : Nat)
    (hex : Exact h0 objs ext)
    (hmark : ∀ x, ((h0 x).mark = .pc ↔ x ∈ P) ∧ ((h0 x).mark = .pc ∨ (h0 x).mark = .non))
    (htc : ∀ x ∈ P, (h0 x).tc = 0) (hPn : P.Nodup) (hPs : ∀ u ∈ P, u ∈ objs)
    (hq1 : (countQueue fuel (countPC { h := h0 } P)).queue = [])
    (hq2 : (tracePhases fuel h0 P).queue = []) :
    ∀ x ∈ (tracePhases fuel h0 P).nonroot,
      ext x = 0 ∧ (∀ u ∈ objs, x ∉ (h0 u).uedges) ∧
      (∀ u ∈ objs, x ∈ (h0 u).edges → u ∈ (tracePhases fuel h0 P).nonroot) := by
  have ctx := ctx_of_exact h0 objs ext hex
  obtain ⟨d0, hd0⟩ := countPC_P1x h0 _ ctx P { h := h0 } [] (init_P1x h0 _ P hmark htc) hPn hPs
  obtain ⟨done, hd⟩ := countQueue_P1x h0 _ ctx fuel _ d0 hd0
  -- name the state at the end of counting
  generalize hs1 : countQueue fuel (countPC { h := h0 } P) = s1 at hd hq1
  have hi2 := init_P2 s1 done hd.inv hq1
  obtain ⟨V1, hv1⟩ := rootsList_P2 s1.h done s1.root _ [] hi2
  obtain ⟨V, hv⟩ := rootsQueue_P2 s1.h done fuel _ V1 hv1
  have hF : tracePhases fuel h0 P = rootsQueue fuel (rootsList { s1 with root := [] } s1.root) := by
    unfold tracePhases; simp only [hs1]
  rw [hF] at hq2 ⊢
  generalize hsF : rootsQueue fuel (rootsList { s1 with root := [] } s1.root) = sF at hv hq2
  intro x hx
  -- x was already in the non-root list at the end of counting
  have hx1 : x ∈ s1.nonroot := by
    have := rootsQueue_nonroot_sub fuel _ x (hsF ▸ hx)
    exact rootsList_nonroot_sub s1.root { s1 with root := [] } x this
  have ⟨hxd, hrt⟩ := (hd.inv.nonroot x).1 hx1
  have hml : (s1.h x).mark ≠ .non := by rw [(hd.inv.mList x).2 hxd]; simp
  have htcx := hd.inv.tcMarked x hml
  simp only [List.count_nil, Nat.add_zero] at htcx
  rw [inCount_frame s1.h h0 done x hd.frame] at htcx
  have hrc := hex.rc x
  rw [← (hd.frame x).1] at hrc
  have hsplit := sum_sub (fun u => (h0 u).edges.count x) done objs hd.doneNodup hex.nodup hd.doneL
  unfold inCount at htcx
  have hext : ext x = 0 := by omega
  have hU : (objs.map (fun u => (h0 u).uedges.count x)).sum = 0 := by omega
  have hrest : ((objs.filter (fun a => !decide (a ∈ done))).map (fun u => (h0 u).edges.count x)).sum = 0 := by
    omega
  refine ⟨hext, ?_, ?_⟩
  · intro u hu
    have := sum_eq_zero_forall _ _ hU u hu
    exact List.count_eq_zero.1 this
  · intro u hu hxu
    have hud : u ∈ done := by
      by_cases h : u ∈ done
      · exact h
      · have hmem : u ∈ objs.filter (fun a => !decide (a ∈ done)) := by
          simp [List.mem_filter, hu, h]
        have := sum_eq_zero_forall _ _ hrest u hmem
        exact absurd hxu (List.count_eq_zero.1 this)
    rcases hv.cover u hud with h | h | h | h | h
    · have := hv.vis u h x (by rw [(hd.frame u).2]; exact hxu)
      exact absurd hx this
    · simp at h
    · rw [hq2] at h; simp at h
    · simp at h
    · exact h

end T1
