import RustCcModel.T1.FinalComplete
import RustCcModel.Proofs.TracingF
import RustCcModel.Model.Machine
import RustCcModel.Proofs.InvReach
/-! # C01 — no premature reclamation

Graph level (proved for every heap, buffer and number of objects): the list a collection pass is
about to reclaim is closed under predecessors, has no reference from the program and no untraced
owner. Machine level, **for every reachable world** (any program, callbacks, collections, injected panics and their
unwinding): the hypotheses of the graph theorem follow from the machine invariants `Counts` and `Inv`
(`Proofs/InvReach.lean`), so whatever a collection pass takes for garbage is referenced by no table entry, no stashed
clone, no temporary of running code, no untraced field and no field of a dead value, and every pointer to it is a
traced field of another member of the same set (`reachable_pass_candidates_unreferenced`); and no pointer that exists
ever points to a freed box (`no_dangling_pointer`). -/
namespace RustCc.C01
open T1

/-- The objects a (panic-free) collection pass of world `w` will finalize / reclaim. -/
def candidates (w : World) : List Nat := (tracePhases w.next (toT1 w) w.pc).nonroot

/-- What `collectPass` computes when no `trace` call is set to panic is `candidates w`. -/
theorem collectPass_computes_candidates (w : World) (user : Nat → Bool) :
    ∃ s : FS, tracePhasesF user w.next (toT1 w) w.pc none = (.done s, none) ∧ s.ts.nonroot = candidates w := by
  obtain ⟨s, h1, h2⟩ := tracePhasesF_noFault user w.next (toT1 w) w.pc
  exact ⟨s, h1, by rw [h2]; rfl⟩

/-- **T1 on the machine's heap.** If reference counts are exact (`rc x` = references from the program
and from temporaries `ext x` + references from traced and untraced fields of live values), the buffer
is the set of `PossibleCycles`-marked objects, duplicate-free, with reset tracing counters, then every
reclaim candidate has no external reference, no untraced owner, and all its owners are candidates too:
nothing reachable from the program — through any chain of traced or untraced fields — is a candidate. -/
theorem candidates_unreachable (w : World) (objs : List Nat) (ext : Nat → Nat)
    (hex : Exact (toT1 w) objs ext)
    (hmark : ∀ x, (((toT1 w) x).mark = .pc ↔ x ∈ w.pc) ∧ (((toT1 w) x).mark = .pc ∨ ((toT1 w) x).mark = .non))
    (htc : ∀ x ∈ w.pc, ((toT1 w) x).tc = 0) (hPn : w.pc.Nodup) (hPs : ∀ u ∈ w.pc, u ∈ objs)
    (hfuel : objs.length ≤ w.next) :
    ∀ x ∈ candidates w,
      ext x = 0 ∧ (∀ u ∈ objs, x ∉ ((toT1 w) u).uedges) ∧
      (∀ u ∈ objs, x ∈ ((toT1 w) u).edges → u ∈ candidates w) :=
  tracePhases_safe_fuel (toT1 w) objs ext w.pc w.next hex hmark htc hPn hPs hfuel

/-- Reachability from externally referenced objects through traced and untraced fields. -/
inductive Reach (h : T1.Heap) (ext : Nat → Nat) : Nat → Prop
  | root (x) : 0 < ext x → Reach h ext x
  | traced (u x) : Reach h ext u → x ∈ (h u).edges → Reach h ext x
  | untraced (u x) : Reach h ext u → x ∈ (h u).uedges → Reach h ext x

/-- **C01, per pass, for every graph.** An object reachable from a pointer held by the program, directly
or through any chain of `Cc` fields — traced by their owner or not — is not a reclaim candidate. -/
theorem reachable_not_candidate (w : World) (objs : List Nat) (ext : Nat → Nat)
    (hex : Exact (toT1 w) objs ext)
    (hclosedU : ∀ u ∈ objs, ∀ y ∈ ((toT1 w) u).uedges, y ∈ objs)
    (hroots : ∀ x, 0 < ext x → x ∈ objs)
    (hmark : ∀ x, (((toT1 w) x).mark = .pc ↔ x ∈ w.pc) ∧ (((toT1 w) x).mark = .pc ∨ ((toT1 w) x).mark = .non))
    (htc : ∀ x ∈ w.pc, ((toT1 w) x).tc = 0) (hPn : w.pc.Nodup) (hPs : ∀ u ∈ w.pc, u ∈ objs)
    (hfuel : objs.length ≤ w.next) (x : Nat) (hr : Reach (toT1 w) ext x) : x ∉ candidates w := by
  have key := candidates_unreachable w objs ext hex hmark htc hPn hPs hfuel
  -- reachable objects are live objects
  have hobj : ∀ y, Reach (toT1 w) ext y → y ∈ objs := by
    intro y hy
    induction hy with
    | root y hy => exact hroots y hy
    | traced u y _ hyu ih => exact hex.closed u ih y hyu
    | untraced u y _ hyu ih => exact hclosedU u ih y hyu
  induction hr with
  | root y hy => intro hc; have := (key y hc).1; omega
  | traced u y hu hyu ih => intro hc; exact ih ((key y hc).2.2 u (hobj u hu) hyu)
  | untraced u y hu hyu _ => intro hc; exact (key y hc).2.1 u (hobj u hu) hyu

/-- Non-vacuity: the hypotheses hold on a concrete heap (a garbage 2-cycle next to a live chain), and
the candidates are exactly the garbage cycle. -/
def exG : T1.Heap := fun i =>
  match i with
  | 0 => ({ rc := 1, mark := .pc, edges := [1] } : T1.Obj)
  | 1 => { rc := 1, edges := [0] }
  | 3 => { rc := 1, mark := .pc, edges := [4] }
  | 4 => { rc := 1 }
  | _ => {}

example : (tracePhases 5 exG [0, 3]).nonroot = [1, 0] := by decide

example : Exact exG [0, 1, 3, 4] (fun x => if x = 3 then 1 else 0) := by
  refine ⟨by decide, ?_, ?_⟩
  · intro u hu y hy
    simp at hu
    rcases hu with rfl | rfl | rfl | rfl <;> simp [exG] at hy <;> simp [hy]
  · intro x
    match x with
    | 0 | 1 | 2 | 3 | 4 => simp [exG, List.count_cons]
    | n + 5 => simp [exG, List.count_cons]

/-! ## The machine: every reachable world -/

/-- **C01, end to end, at every collection pass of every execution.** Let the machine be about to run a collection
pass (`collectPass` on top of the stack) in any reachable world. Then every object the pass selects (if its tracing
does not panic, `collectPass_computes_candidates`) is unreferenced from outside the selected set: no table entry of the
program, no stashed clone, no pointer held by any frame (temporaries of the running `Cc::drop`s, captured pointers of
running cleaning actions, …) points to it, and every object `u` with a pointer field to it — traced or untraced,
its value alive or not — is itself selected and reaches it through a traced field of its live value. -/
theorem reachable_pass_candidates_unreferenced (c : Cfg) (nH nW nK : Nat) (w : World) (h : Reachable c nH nW nK w)
    (rest : List Frame) (hs : w.stack = .collectPass :: rest) :
    ∀ x ∈ candidates { w with stack := rest },
      (optIds w.H).count x = 0 ∧ w.stash x = 0 ∧ (held rest).count x = 0 ∧
      (∀ u, u < w.next → x ∈ fieldsOf (w.heap u) →
        u ∈ candidates { w with stack := rest } ∧ x ∈ (toT1 w u).edges) := by
  have ha := reachable_all c nH nW nK w h
  obtain ⟨hc0, hoi0⟩ := pass_setup w rest ha.counts ha.flags ha.inv hs
  intro x hx
  obtain ⟨h1, h2, h3, _, _, _⟩ := candidates_unreferenced { w with stack := rest } hc0 hoi0 x hx
  exact ⟨h1, h2, h3, fun u hu hm => candidates_field_owner { w with stack := rest } hc0 hoi0 x hx u hu hm⟩

/-- Reachability from the program's pointers (table entries, stashed clones, pointers held by frames) through
any pointer field (traced or not) of allocated objects. -/
inductive ProgReach (w : World) (st : List Frame) : Id → Prop
  | table (x) : x ∈ optIds w.H → ProgReach w st x
  | stash (x) : 0 < w.stash x → ProgReach w st x
  | frame (x) : x ∈ held st → ProgReach w st x
  | field (u x) : ProgReach w st u → u < w.next → x ∈ fieldsOf (w.heap u) → ProgReach w st x

/-- **Nothing reachable from the program is ever selected**: at every collection pass of every execution, an
object reachable from a pointer the program holds — directly or through any chain of `Cc` fields, whether their owner
traces them or not — is not among the objects the pass will finalize or reclaim. -/
theorem reachable_object_not_candidate (c : Cfg) (nH nW nK : Nat) (w : World) (h : Reachable c nH nW nK w)
    (rest : List Frame) (hs : w.stack = .collectPass :: rest) (x : Id) (hr : ProgReach w rest x) :
    x ∉ candidates { w with stack := rest } := by
  have key := reachable_pass_candidates_unreferenced c nH nW nK w h rest hs
  induction hr with
  | table y hy => intro hc; have := (key y hc).1; have := count_pos_of_mem hy; omega
  | stash y hy => intro hc; have := (key y hc).2.1; omega
  | frame y hy => intro hc; have := (key y hc).2.2.1; have := count_pos_of_mem hy; omega
  | field u y _ hu hy ih => intro hc; exact ih ((key y hc).2.2.2 u hu hy).1

/-- **No dangling pointer, ever**: in every reachable world the target of every pointer that exists is a box that has
not been freed. -/
theorem no_dangling_pointer (c : Cfg) (nH nW nK : Nat) (w : World) (h : Reachable c nH nW nK w) (x : Id)
    (hp : 0 < refs w x) : (w.heap x).boxLive = true := by
  have ha := reachable_all c nH nW nK w h
  have hle := ha.counts.le x
  exact OI.boxLive_of_rc ha.inv.oi (x := x) (by show (w.heap x).rc ≠ 0; omega)

/-- Non-vacuity: a reachable world in which a pass is about to run with a non-empty candidate list (a garbage
2-cycle next to a live object). -/
def exCfg : Cfg := {}
def exSpec : NewSpec := { ns := 1, nu := 0, nw := 0, cleaner := false, fin := 0, drp := 0 }
def exProg : List Op :=
  [.new 0 exSpec, .new 1 exSpec, .new 2 exSpec, .setf (.of (.h 0)) (.f 0) (.h 1), .setf (.of (.h 1)) (.f 0) (.h 0),
   .drop 0, .drop 1]
def exW : World := exProg.foldl (execTop exCfg 100) (World.init exCfg 3 0 0)
/-- the world just before the collection pass of a `collect` -/
def exPass : World := run exCfg 2 { exW with stack := [.script [.collect] none none true, .catchTop], events := [], ret := .ok }
example : (match exPass.stack.head? with | some .collectPass => true | _ => false) = true ∧
    candidates { exPass with stack := exPass.stack.tail } = [0, 1] := by decide

end RustCc.C01
