import RustCcModel.Proofs.CtlSimp
import RustCcModel.Proofs.LifeHist
import RustCcModel.Proofs.FinOnce
import RustCcModel.Proofs.FinBeforeDrop
import RustCcModel.Proofs.NoFinEv
/-! # C05 — finalizers run only on garbage, once, and before any drop of the same set

Step-level facts: the finalized flag is set *before* the finalizer is called (so it is never called
twice without a re-arm); the finalization pass skips finalized objects; destructors of a garbage set
start only in a pass that finalized nothing (all finalizers of the set ran in an earlier pass);
objects created while finalizing are born finalized; without the feature the finalizer frames are
never produced. That the finalized set is garbage is C01 (`candidates`). -/
namespace RustCc.C05
open World

/-- Collector path: a not-yet-finalized member is flagged, then finalized; the pass remembers it. -/
theorem finalizePass_finalizes_once (c : Cfg) (w : World) (N r : List Id) (x : Id) (hf oF : Bool)
    (hnf : (w.heap x).finalized = false) :
    (stepFrame c w (.finalizePass N (x :: r) hf oF)).stack = .callFin x :: .finalizePass N r true oF :: w.stack ∧
    ((stepFrame c w (.finalizePass N (x :: r) hf oF)).heap x).finalized = true := by
  simp [stepFrame, hnf, push, upd]

/-- An already finalized member is skipped: no second finalization without `finalize_again`. -/
theorem finalizePass_skips_finalized (c : Cfg) (w : World) (N r : List Id) (x : Id) (hf oF : Bool)
    (hfin : (w.heap x).finalized = true) :
    stepFrame c w (.finalizePass N (x :: r) hf oF) = w.push (.finalizePass N r hf oF) := by
  simp [stepFrame, hfin]

/-- A pass that ran a finalizer drops nothing: the whole list goes back to the buffer (with reset
tracing counters) to be re-examined, so every finalizer of a garbage set runs before any of its destructors. -/
theorem finalizePass_rebuffers (c : Cfg) (w : World) (N : List Id) (oF : Bool) :
    (stepFrame c w (.finalizePass N [] true oF)).stack = w.stack ∧
    (stepFrame c w (.finalizePass N [] true oF)).pc = N ++ w.pc ∧
    (stepFrame c w (.finalizePass N [] true oF)).events = w.events := by
  simp [stepFrame]

/-- Only a pass that finalized nothing hands its list to `deallocate_list`. -/
theorem finalizePass_deallocates_when_quiet (c : Cfg) (w : World) (N : List Id) (oF : Bool) :
    stepFrame c w (.finalizePass N [] false oF) = startDealloc c { w with finalizing := oF } N := by
  simp [stepFrame]

/-- Objects created inside a finalizer report `already_finalized()`. -/
theorem created_while_finalizing (c : Cfg) (w : World) (sp : NewSpec) (hf : c.fin = true) (hw : w.finalizing = true) :
    (newObj c w sp).finalized = true := by
  simp [newObj, hf, hw]

/-- With the `finalization` feature disabled `Cc::drop` of the last owner goes straight to the destruction. -/
theorem no_feature_no_finalizer_rc (c : Cfg) (w : World) (x : Id) (hc : c.fin = false)
    (hm : (w.heap x).mark = .non ∨ (w.heap x).mark = .pc) (hrc : (w.heap x).rc = 1) :
    stepFrame c w (.dropCc x) = destroyLast c w x := by
  simp only [stepFrame]
  have h1 : ¬ ((w.heap x).mark = .inList ∨ (w.heap x).mark = .inQueue) := by
    rcases hm with h | h <;> simp [h]
  rw [if_neg h1, if_pos hrc]
  simp [hc]

/-! ## Histories in which no panic has been unwound (`Proofs/LifeHist.lean`) -/

/-- **A finalizer is only ever called on an intact value in an allocated box**: whenever a step emits `finalize x`, object
`x` holds a live value in a live box. -/
theorem finalize_only_alive (c : Cfg) (nH nW nK : Nat) (w : World) (h : ReachableR c nH nW nK w) (hm : w.mode = .running) (x : Id)
    (t : Bool) (hx : Event.finalize x t ∈ newEvents w (step c w)) :
    (w.heap x).boxLive = true ∧ (w.heap x).valLive = true := by
  have hv : (false, x) ∈ vEv (newEvents w (step c w)) := mem_vEv_fin.2 ⟨t, hx⟩
  obtain ⟨hal, _⟩ := vev_alive h hm false x hv
  exact ⟨by have := congrArg Prod.fst hal; simpa [Obj.lv] using this, by have := congrArg Prod.snd hal; simpa [Obj.lv] using this⟩

/-- **`finalize` always comes before that object's `Drop`**: in the log of the whole history no `finalize x` follows `drop x`. -/
theorem no_finalize_after_drop (c : Cfg) (nH nW nK : Nat) (w : World) (log : List Event) (h : HistR c nH nW nK w log) (x : Id)
    (l1 l2 : List (Bool × Id)) (hs : vEv log = l1 ++ (true, x) :: l2) : (false, x) ∉ l2 :=
  (histR_deadOk c nH nW nK w log h x).order l1 l2 hs false

/-- The finalized flag is already set when the finalizer is entered (so a collection started from inside it, or a second
`Cc::drop`, cannot finalize the object again): the frame that is about to call `Finalize::finalize` is always pushed
together with the flag. -/
theorem dropCc_sets_flag_before_call (c : Cfg) (w : World) (x : Id)
    (hm : (w.heap x).mark = .non ∨ (w.heap x).mark = .pc) (hrc : (w.heap x).rc = 1) (hf : c.fin = true)
    (hnf : (w.heap x).finalized = false) :
    ((stepFrame c w (.dropCc x)).heap x).finalized = true ∧ (stepFrame c w (.dropCc x)).stack.head? = some (.callFin x) := by
  simp only [stepFrame]
  have h1 : ¬ ((w.heap x).mark = .inList ∨ (w.heap x).mark = .inQueue) := by
    rcases hm with h | h <;> simp [h]
  rw [if_neg h1, if_pos hrc]
  simp [hf, hnf, push, upd]

/-- **At most once per object unless re-armed**: in the log of every history of the running machine (`HistC … x w log nr`:
`nr` = number of steps that cleared the finalized flag of `x`) the number of `finalize x` events is at most `1 + nr` —
by a potential argument over every micro-step (`Proofs/FinOnce.lean`): a finalizer call is always paid for by the flag
going from clear to set. -/
theorem finalize_at_most_once_unless_rearmed (c : Cfg) (nH nW nK : Nat) (x : Id) (w : World) (log : List Event) (nr : Nat)
    (h : HistC c nH nW nK x w log nr) : (vEv log).count (false, x) ≤ 1 + nr := by
  have := histC_finalize_once c nH nW nK x w log nr h
  omega

/-- … in particular exactly "at most once" when the object was never re-armed. -/
theorem finalize_at_most_once (c : Cfg) (nH nW nK : Nat) (x : Id) (w : World) (log : List Event)
    (h : HistC c nH nW nK x w log 0) : (vEv log).count (false, x) ≤ 1 :=
  finalize_at_most_once_unless_rearmed c nH nW nK x w log 0 h

/-- The only step that clears the flag of an allocated object is `finalize_again` on a pointer to it. -/
theorem only_finalize_again_rearms (c : Cfg) (w : World) (hm : w.mode = .running) (x : Id) (hlt : x < w.next)
    (hr : rearmed w (step c w) x = 1) :
    ∃ k ops self wc top rest, w.stack = .script (.finAgain k :: ops) self wc top :: rest ∧ w.getH k = some x :=
  rearm_only_by_finalize_again c w hm x hlt hr

/-- **All finalizers of a garbage set run before any of its destructors** (every reachable world, caught panics included;
`finalization` on): while
`deallocate_list` is destroying a list — from before its first destructor to the release of its boxes — every member of the
list carries the finalized flag, i.e. its finalizer has run (or it was created inside a finalizer); and during the
finalization pass every member already visited is flagged. The flag cannot be cleared in between: `finalize_again` panics
from every callback of a collection (`Proofs/FinBeforeDrop.lean`). -/
theorem finalizers_before_destructors (c : Cfg) (nH nW nK : Nat) (w : World) (hc : c.fin = true) (h : Reachable c nH nW nK w) :
    (∀ N r d, Frame.deallocDrop N r d ∈ w.stack → ∀ x ∈ N, (w.heap x).finalized = true) ∧
    (∀ N r hf o, Frame.finalizePass N r hf o ∈ w.stack → ∀ x ∈ N, x ∉ r → (w.heap x).finalized = true) := by
  have hfd := reachable_fd hc h
  exact ⟨fun N r d hm x hx => hfd _ hm x hx, fun N r hf o hm x hx hr => hfd _ hm x hx hr⟩

/-- **With the `finalization` feature disabled `Finalize::finalize` is never called** — in every reachable world, after any
history (collections, plain drops, caught panics): no pending `finalize` call is ever on the stack and the log of no operation
contains a `finalize` event (`Proofs/NoFinEv.lean`). -/
theorem never_finalized_without_feature (c : Cfg) (nH nW nK : Nat) (w : World) (hc : c.fin = false)
    (h : Reachable c nH nW nK w) :
    (∀ x, Frame.callFin x ∉ w.stack) ∧ (∀ x t, Event.finalize x t ∉ w.events) := by
  refine ⟨reachable_ncf hc h, ?_⟩
  intro x t hm
  exact reachable_no_finalize_event hc h x (mem_vEv_fin.2 ⟨t, hm⟩)

end RustCc.C05
