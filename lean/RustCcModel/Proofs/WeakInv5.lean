import RustCcModel.Proofs.WeakInv4
/-! The stack clause of the weak invariant: a script that can name the `Weak` of a `new_cyclic` closure runs above the
`newCyclicEnd` frame that holds this `Weak`. Preserved by every micro-step. -/
namespace RustCc
open World

variable {ex : Bool}

theorem wcOk_cons (f : Frame) (rest : List Frame) :
    wcOk (f :: rest) ↔ (∀ id, f.wcId = some id → id ∈ cycs rest) ∧ wcOk rest := Iff.rfl

theorem wcOk_cons_plain (f : Frame) (rest : List Frame) (hf : f.wcId = none) : wcOk (f :: rest) ↔ wcOk rest := by
  rw [wcOk_cons, hf]; simp

theorem wcOk_tail {f : Frame} {rest : List Frame} (h : wcOk (f :: rest)) : wcOk rest := h.2

macro "wc_close" h0:ident : tactic => `(tactic| first
      | exact $h0
      | (simp_all [wcOk_cons, Frame.wcId, cycs_cons, Frame.cyc]; done))

set_option maxHeartbeats 4000000 in
theorem execOp_wcOk (c : Cfg) (w : World) (self wc : Option Id) (op : Op) (h : wcOk w.stack) :
    wcOk (execOp c w self wc op).stack := by
  cases op with
  | nop => exact h
  | panic => simpa [execOp] using h
  | fault kind n j => cases kind <;> exact h
  | _ =>
    simp only [execOp]
    repeat' split
    all_goals (try wc_close h)

set_option maxHeartbeats 4000000 in
theorem stepFrame_wcOk (c : Cfg) (w0 : World) (f : Frame) (h : wcOk (f :: w0.stack)) : wcOk (stepFrame c w0 f).stack := by
  have h0 : wcOk w0.stack := h.2
  cases f with
  | script ops self wc top =>
    cases ops with
    | nil => simpa [stepFrame] using h0
    | cons op ops =>
      simp only [stepFrame]
      have h1 : wcOk (w0.push (.script ops self wc top)).stack := by
        rw [push_stack]; exact ⟨h.1, h0⟩
      have h2 := execOp_wcOk c _ self wc op h1
      split
      · exact h2
      · exact h2
  | deallocDrop N r oD =>
    cases r with
    | cons x r =>
      simp only [stepFrame]
      repeat' split
      all_goals (try wc_close h0)
    | nil =>
      simp only [stepFrame]
      have hc := foldl_free_ctl c N w0
      split
      · wc_close h0
      · show wcOk (N.foldl (fun w x => (if c.weak then w.dropMetadata x else w).freeBox x) w0).stack
        rw [hc.stack]; exact h0
  | _ =>
    simp only [stepFrame, destroyLast, startDealloc, putH]
    repeat' split
    all_goals (try wc_close h0)

set_option maxHeartbeats 4000000 in
theorem unwindFrame_wcOk (c : Cfg) (w0 : World) (f : Frame) (h : wcOk (f :: w0.stack)) : wcOk (unwindFrame c w0 f).stack := by
  have h0 : wcOk w0.stack := h.2
  simp only [unwindFrame]
  repeat' split
  all_goals (try wc_close h0)

theorem step_wcOk (c : Cfg) (w : World) (h : wcOk w.stack) : wcOk (step c w).stack := by
  unfold step
  split
  · exact h
  · exact h
  · split
    · rename_i hs; rw [hs]; trivial
    · rename_i f rest hs
      apply unwindFrame_wcOk
      rw [hs] at h; exact h
  · split
    · exact h
    · rename_i f rest hs
      apply stepFrame_wcOk
      rw [hs] at h; exact h

end RustCc
