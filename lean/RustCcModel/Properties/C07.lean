import RustCcModel.Proofs.FlagsStep
/-! # C07 — panics from user callbacks are contained at every crash point

The invariant "the flags are the stack" (`FlagsOk`) is preserved by *every* micro-step of the machine,
in running and in unwinding mode, for every program, every callback script and every fault plan
(any callback invocation of any kind may panic, any number of times in successive operations).
Consequence: whenever the machine is idle — in particular after a panic was caught at the API
boundary — the collector is idle and usable. -/
namespace RustCc.C07
open World

/-- Every micro-step (normal or unwinding) preserves the flags invariant. -/
theorem flags_invariant (c : Cfg) (w : World) (h : FlagsOk w) : FlagsOk (step c w) := step_flagsOk c w h

/-- After any history, an idle machine has `collecting = finalizing = dropping = false`. -/
theorem idle_after_any_history (c : Cfg) (nH nW nK : Nat) (w : World) (h : Reachable c nH nW nK w)
    (hs : w.stack = []) : w.collecting = false ∧ w.finalizing = false ∧ w.dropping = false :=
  idle_flags c nH nW nK w h hs

/-- … hence `is_tracing()` is false … -/
theorem idle_not_tracing (c : Cfg) (nH nW nK : Nat) (w : World) (h : Reachable c nH nW nK w)
    (hs : w.stack = []) : w.isTracing c = false := by
  obtain ⟨h1, _, _⟩ := idle_flags c nH nW nK w h hs
  unfold isTracing; simp [h1]

/-- … and a later collection can start: `collect_cycles()` on an idle machine begins a collection. -/
theorem idle_can_collect (c : Cfg) (nH nW nK : Nat) (w : World) (h : Reachable c nH nW nK w)
    (hs : w.stack = []) (self wc : Option Id) :
    (execOp c w self wc .collect).collecting = true ∧ (execOp c w self wc .collect).execs = w.execs + 1 := by
  obtain ⟨h1, _, _⟩ := idle_flags c nH nW nK w h hs
  simp only [execOp, h1]
  by_cases ha : c.auto = true <;> simp [ha, startCollect, push, emit]

/-- The panic propagates to the caller of the API: unwinding stops exactly at the `catch_unwind` of
the top-level operation, which reports `panic`. -/
theorem panic_reaches_api_boundary (c : Cfg) (w : World) :
    (unwindFrame c w .catchTop).mode = .running ∧ (unwindFrame c w .catchTop).ret = .panic := by
  simp [unwindFrame]

/-- Script frames (user code) hold no collector state: unwinding through them changes nothing. -/
theorem unwind_through_script (c : Cfg) (w : World) (ops : List Op) (self wc : Option Id) (top : Bool) :
    unwindFrame c w (.script ops self wc top) = w := by
  simp [unwindFrame]

/-- Non-vacuity: the initial world is reachable and idle. -/
example (c : Cfg) : Reachable c 6 4 4 (World.init c 6 4 4) ∧ (World.init c 6 4 4).stack = [] :=
  ⟨.init, rfl⟩

end RustCc.C07
