import RustCcModel.Proofs.InvDefs
/-! Building blocks for the invariant `OI`: how each primitive change of an object's core, of the buffer
and of the lists owned by frames transforms it. -/
namespace RustCc
open T1 (Mark)

def setC (h : Id → Core) (x : Id) (c : Core) : Id → Core := fun y => if y = x then c else h y

@[simp] theorem setC_same (h : Id → Core) (x c) : setC h x c x = c := by simp [setC]
theorem setC_other (h : Id → Core) (x y c) (hne : y ≠ x) : setC h x c y = h y := by simp [setC, hne]

variable {h : Id → Core} {pc L Z Cy : List Id}

theorem OI.boxLive_of_mark (hi : OI h pc L Z Cy) {x : Id} (hm : (h x).mark ≠ .non) : (h x).boxLive = true := by
  cases hb : (h x).boxLive with
  | true => rfl
  | false => exact absurd (hi.dead x hb).2 hm

theorem OI.boxLive_of_rc (hi : OI h pc L Z Cy) {x : Id} (hr : (h x).rc ≠ 0) : (h x).boxLive = true := by
  cases hb : (h x).boxLive with
  | true => rfl
  | false => exact absurd (hi.dead x hb).1 hr

theorem OI.not_mem_Z_of_rc (hi : OI h pc L Z Cy) {x : Id} (hr : (h x).rc ≠ 0) : x ∉ Z :=
  fun hz => hr (hi.zero x hz).2.1

theorem OI.not_mem_Z_of_mark (hi : OI h pc L Z Cy) {x : Id} (hm : (h x).mark ≠ .non) : x ∉ Z :=
  fun hz => hm (hi.zero x hz).2.2

theorem OI.not_mem_L_of_Z (hi : OI h pc L Z Cy) {x : Id} (hz : x ∈ Z) : x ∉ L := by
  intro hl
  have := (hi.mList x).2 hl
  rw [(hi.zero x hz).2.2] at this
  cases this

/-- Changing an object while keeping mark, tracing counter and liveness; the count may change freely unless the
object is freed or owned with count 0; the value may not come alive while under construction. -/
theorem OI.set (hi : OI h pc L Z Cy) (x : Id) (c : Core) (hm : c.mark = (h x).mark) (ht : c.tc = (h x).tc)
    (hb : c.boxLive = (h x).boxLive) (hrc : ((h x).boxLive = false ∨ x ∈ Z) → c.rc = 0)
    (hv : x ∈ Cy → c.valLive = false) : OI (setC h x c) pc L Z Cy := by
  refine ⟨hi.pcNodup, ?_, ?_, ?_, ?_, ?_, ?_, ?_, hi.cycZ, hi.ownNodup⟩
  · intro y; by_cases hy : y = x
    · subst hy; rw [setC_same, hm]; exact hi.mPc y
    · rw [setC_other _ _ _ _ hy]; exact hi.mPc y
  · intro y hyp; by_cases hy : y = x
    · subst hy; rw [setC_same, ht]; exact hi.tc0 y hyp
    · rw [setC_other _ _ _ _ hy]; exact hi.tc0 y hyp
  · intro y; by_cases hy : y = x
    · subst hy; rw [setC_same, hm]; exact hi.noQueue y
    · rw [setC_other _ _ _ _ hy]; exact hi.noQueue y
  · intro y; by_cases hy : y = x
    · subst hy; rw [setC_same, hm]; exact hi.mList y
    · rw [setC_other _ _ _ _ hy]; exact hi.mList y
  · intro y; by_cases hy : y = x
    · subst hy; rw [setC_same, hm, hb]; intro hd; exact ⟨hrc (Or.inl hd), (hi.dead y hd).2⟩
    · rw [setC_other _ _ _ _ hy]; exact hi.dead y
  · intro y hyz; by_cases hy : y = x
    · subst hy; rw [setC_same, hm, hb]; exact ⟨(hi.zero y hyz).1, hrc (Or.inr hyz), (hi.zero y hyz).2.2⟩
    · rw [setC_other _ _ _ _ hy]; exact hi.zero y hyz
  · intro y hyc; by_cases hy : y = x
    · subst hy; rw [setC_same]; exact hv hyc
    · rw [setC_other _ _ _ _ hy]; exact hi.cyc y hyc

/-- Same core: nothing to show. -/
theorem OI.congr {h' : Id → Core} (hi : OI h pc L Z Cy) (he : ∀ y, h' y = h y) : OI h' pc L Z Cy := by
  have : h' = h := funext he
  rw [this]; exact hi

/-- `remove_from_list` on a buffered object. -/
theorem OI.unbuffer (hi : OI h pc L Z Cy) (x : Id) (hx : (h x).mark = .pc) :
    OI (setC h x { h x with mark := .non }) (pc.erase x) L Z Cy := by
  have hxl : x ∉ L := fun hl => by have := (hi.mList x).2 hl; rw [hx] at this; cases this
  refine ⟨hi.pcNodup.erase x, ?_, ?_, ?_, ?_, ?_, ?_, ?_, hi.cycZ, hi.ownNodup⟩
  · intro y; by_cases hy : y = x
    · subst hy; rw [setC_same]; simp only
      constructor
      · intro hc; cases hc
      · intro hm; exact absurd hm (List.Nodup.not_mem_erase hi.pcNodup)
    · rw [setC_other _ _ _ _ hy, hi.mPc y]
      constructor
      · intro hm; exact (List.mem_erase_of_ne hy).2 hm
      · intro hm; exact List.mem_of_mem_erase hm
  · intro y hyp
    have hyp' := List.mem_of_mem_erase hyp
    by_cases hy : y = x
    · subst hy; rw [setC_same]; exact hi.tc0 y hyp'
    · rw [setC_other _ _ _ _ hy]; exact hi.tc0 y hyp'
  · intro y; by_cases hy : y = x
    · subst hy; rw [setC_same]; simp
    · rw [setC_other _ _ _ _ hy]; exact hi.noQueue y
  · intro y; by_cases hy : y = x
    · subst hy; rw [setC_same]; simp only
      constructor
      · intro hc; cases hc
      · intro hl; exact absurd hl hxl
    · rw [setC_other _ _ _ _ hy]; exact hi.mList y
  · intro y; by_cases hy : y = x
    · subst hy; rw [setC_same]; simp only; intro hd; exact ⟨(hi.dead y hd).1, trivial⟩
    · rw [setC_other _ _ _ _ hy]; exact hi.dead y
  · intro y hyz; by_cases hy : y = x
    · subst hy; exact absurd hyz (hi.not_mem_Z_of_mark (by rw [hx]; simp))
    · rw [setC_other _ _ _ _ hy]; exact hi.zero y hyz
  · intro y hyc; by_cases hy : y = x
    · subst hy; rw [setC_same]; exact hi.cyc y hyc
    · rw [setC_other _ _ _ _ hy]; exact hi.cyc y hyc

/-- `add_to_list` on an unmarked live object that no frame owns. -/
theorem OI.buffer (hi : OI h pc L Z Cy) (x : Id) (hx : (h x).mark = .non) (hb : (h x).boxLive = true) (hz : x ∉ Z) :
    OI (setC h x { h x with tc := 0, mark := .pc }) (x :: pc) L Z Cy := by
  have hxp : x ∉ pc := fun hp => by have := (hi.mPc x).2 hp; rw [hx] at this; cases this
  have hxl : x ∉ L := fun hl => by have := (hi.mList x).2 hl; rw [hx] at this; cases this
  refine ⟨List.nodup_cons.2 ⟨hxp, hi.pcNodup⟩, ?_, ?_, ?_, ?_, ?_, ?_, ?_, hi.cycZ, hi.ownNodup⟩
  · intro y; by_cases hy : y = x
    · subst hy; rw [setC_same]; simp
    · rw [setC_other _ _ _ _ hy, hi.mPc y]; simp [hy]
  · intro y hyp; by_cases hy : y = x
    · subst hy; rw [setC_same]
    · rw [setC_other _ _ _ _ hy]
      rcases List.mem_cons.1 hyp with e | e
      · exact absurd e hy
      · exact hi.tc0 y e
  · intro y; by_cases hy : y = x
    · subst hy; rw [setC_same]; simp
    · rw [setC_other _ _ _ _ hy]; exact hi.noQueue y
  · intro y; by_cases hy : y = x
    · subst hy; rw [setC_same]; simp only
      constructor
      · intro hc; cases hc
      · intro hl; exact absurd hl hxl
    · rw [setC_other _ _ _ _ hy]; exact hi.mList y
  · intro y; by_cases hy : y = x
    · subst hy; rw [setC_same]; simp only; intro hd; rw [hb] at hd; cases hd
    · rw [setC_other _ _ _ _ hy]; exact hi.dead y
  · intro y hyz; by_cases hy : y = x
    · subst hy; exact absurd hyz hz
    · rw [setC_other _ _ _ _ hy]; exact hi.zero y hyz
  · intro y hyc; by_cases hy : y = x
    · subst hy; rw [setC_same]; exact hi.cyc y hyc
    · rw [setC_other _ _ _ _ hy]; exact hi.cyc y hyc

/-- Dropping ownership claims of frames that were popped. -/
theorem OI.weaken {Z' Cy' : List Id} (hi : OI h pc L Z Cy) (hz : Z'.Sublist Z) (hc : Cy'.Sublist Cy)
    (hcz : ∀ y ∈ Cy', y ∈ Z') : OI h pc L Z' Cy' :=
  ⟨hi.pcNodup, hi.mPc, hi.tc0, hi.noQueue, hi.mList, hi.dead, fun x hx => hi.zero x (hz.subset hx),
   fun x hx => hi.cyc x (hc.subset hx), hcz, (hi.ownNodup.sublist (List.Sublist.append hz (List.Sublist.refl L)))⟩

/-- The freed core. -/
def freedCore (c : Core) : Core := { c with boxLive := false, rc := 0, tc := 0, mark := .non }

/-- `cc_dealloc` of an unmarked object that no remaining frame owns. -/
theorem OI.free (hi : OI h pc L Z Cy) (x : Id) (hx : (h x).mark = .non) (hz : x ∉ Z) :
    OI (setC h x (freedCore (h x))) pc L Z Cy := by
  have hxp : x ∉ pc := fun hp => by have := (hi.mPc x).2 hp; rw [hx] at this; cases this
  have hxl : x ∉ L := fun hl => by have := (hi.mList x).2 hl; rw [hx] at this; cases this
  refine ⟨hi.pcNodup, ?_, ?_, ?_, ?_, ?_, ?_, ?_, hi.cycZ, hi.ownNodup⟩
  · intro y; by_cases hy : y = x
    · subst hy; rw [setC_same]; simp only [freedCore]
      constructor
      · intro hc; cases hc
      · intro hp; exact absurd hp hxp
    · rw [setC_other _ _ _ _ hy]; exact hi.mPc y
  · intro y hyp; by_cases hy : y = x
    · subst hy; exact absurd hyp hxp
    · rw [setC_other _ _ _ _ hy]; exact hi.tc0 y hyp
  · intro y; by_cases hy : y = x
    · subst hy; rw [setC_same]; simp [freedCore]
    · rw [setC_other _ _ _ _ hy]; exact hi.noQueue y
  · intro y; by_cases hy : y = x
    · subst hy; rw [setC_same]; simp only [freedCore]
      constructor
      · intro hc; cases hc
      · intro hl; exact absurd hl hxl
    · rw [setC_other _ _ _ _ hy]; exact hi.mList y
  · intro y; by_cases hy : y = x
    · subst hy; rw [setC_same]; intro _; exact ⟨rfl, rfl⟩
    · rw [setC_other _ _ _ _ hy]; exact hi.dead y
  · intro y hyz; by_cases hy : y = x
    · subst hy; exact absurd hyz hz
    · rw [setC_other _ _ _ _ hy]; exact hi.zero y hyz
  · intro y hyc; by_cases hy : y = x
    · subst hy; exact absurd (hi.cycZ y hyc) hz
    · rw [setC_other _ _ _ _ hy]; exact hi.cyc y hyc

/-- Allocation at an identity whose box is not live. -/
theorem OI.alloc (hi : OI h pc L Z Cy) (x : Id) (c : Core) (hd : (h x).boxLive = false) (hm : c.mark = .non)
    (hb : c.boxLive = true) : OI (setC h x c) pc L Z Cy := by
  have hx := (hi.dead x hd).2
  have hxp : x ∉ pc := fun hp => by have := (hi.mPc x).2 hp; rw [hx] at this; cases this
  have hxl : x ∉ L := fun hl => by have := (hi.mList x).2 hl; rw [hx] at this; cases this
  have hz : x ∉ Z := fun hz => by have := (hi.zero x hz).1; rw [hd] at this; cases this
  refine ⟨hi.pcNodup, ?_, ?_, ?_, ?_, ?_, ?_, ?_, hi.cycZ, hi.ownNodup⟩
  · intro y; by_cases hy : y = x
    · subst hy; rw [setC_same, hm]
      constructor
      · intro hc; cases hc
      · intro hp; exact absurd hp hxp
    · rw [setC_other _ _ _ _ hy]; exact hi.mPc y
  · intro y hyp; by_cases hy : y = x
    · subst hy; exact absurd hyp hxp
    · rw [setC_other _ _ _ _ hy]; exact hi.tc0 y hyp
  · intro y; by_cases hy : y = x
    · subst hy; rw [setC_same, hm]; simp
    · rw [setC_other _ _ _ _ hy]; exact hi.noQueue y
  · intro y; by_cases hy : y = x
    · subst hy; rw [setC_same, hm]
      constructor
      · intro hc; cases hc
      · intro hl; exact absurd hl hxl
    · rw [setC_other _ _ _ _ hy]; exact hi.mList y
  · intro y; by_cases hy : y = x
    · subst hy; rw [setC_same, hb]; intro hc; cases hc
    · rw [setC_other _ _ _ _ hy]; exact hi.dead y
  · intro y hyz; by_cases hy : y = x
    · subst hy; exact absurd hyz hz
    · rw [setC_other _ _ _ _ hy]; exact hi.zero y hyz
  · intro y hyc; by_cases hy : y = x
    · subst hy; exact absurd (hi.cycZ y hyc) hz
    · rw [setC_other _ _ _ _ hy]; exact hi.cyc y hyc

/-- A frame takes ownership of a live box with count 0. -/
theorem OI.consZ (hi : OI h pc L Z Cy) (x : Id) (hb : (h x).boxLive = true) (hr : (h x).rc = 0)
    (hm : (h x).mark = .non) (hz : x ∉ Z) : OI h pc L (x :: Z) Cy := by
  have hxl : x ∉ L := fun hl => by have := (hi.mList x).2 hl; rw [hm] at this; cases this
  refine ⟨hi.pcNodup, hi.mPc, hi.tc0, hi.noQueue, hi.mList, hi.dead, ?_, hi.cyc,
    fun y hy => List.mem_cons_of_mem _ (hi.cycZ y hy), ?_⟩
  · intro y hy
    rcases List.mem_cons.1 hy with e | e
    · subst e; exact ⟨hb, hr, hm⟩
    · exact hi.zero y e
  · simp only [List.cons_append]
    refine List.nodup_cons.2 ⟨?_, hi.ownNodup⟩
    intro hmem
    rcases List.mem_append.1 hmem with e | e
    · exact hz e
    · exact hxl e

theorem OI.consCy (hi : OI h pc L Z Cy) (x : Id) (hz : x ∈ Z) (hv : (h x).valLive = false) : OI h pc L Z (x :: Cy) :=
  ⟨hi.pcNodup, hi.mPc, hi.tc0, hi.noQueue, hi.mList, hi.dead, hi.zero,
   fun y hy => by rcases List.mem_cons.1 hy with e | e; exact e ▸ hv; exact hi.cyc y e,
   fun y hy => by rcases List.mem_cons.1 hy with e | e; exact e ▸ hz; exact hi.cycZ y e, hi.ownNodup⟩

/-- The collector's list `N` is released: its members become unmarked (un-marking on unwind, or freed). -/
theorem OI.unlist {h' : Id → Core} {N L' : List Id} (hi : OI h pc (N ++ L') Z Cy)
    (hin : ∀ y ∈ N, (h' y).mark = .non ∧
      (((h' y).boxLive = (h y).boxLive ∧ (h' y).rc = (h y).rc ∧ (h' y).valLive = (h y).valLive) ∨
       ((h' y).boxLive = false ∧ (h' y).rc = 0)))
    (hout : ∀ y, y ∉ N → h' y = h y) : OI h' pc L' Z Cy := by
  have hnd := hi.ownNodup
  have hNL : ∀ y ∈ N, (h y).mark = .inList := fun y hy => (hi.mList y).2 (List.mem_append_left _ hy)
  have hNpc : ∀ y ∈ N, y ∉ pc := fun y hy hp => by have := (hi.mPc y).2 hp; rw [hNL y hy] at this; cases this
  have hNZ : ∀ y ∈ N, y ∉ Z := fun y hy => hi.not_mem_Z_of_mark (by rw [hNL y hy]; simp)
  have hNL' : ∀ y ∈ N, y ∉ L' := by
    intro y hy hl
    have h1 : (N ++ L').Nodup := (List.nodup_append.1 hnd).2.1
    exact (List.nodup_append.1 h1).2.2 y hy y hl rfl
  refine ⟨hi.pcNodup, ?_, ?_, ?_, ?_, ?_, ?_, ?_, hi.cycZ, ?_⟩
  · intro y; by_cases hy : y ∈ N
    · rw [(hin y hy).1]
      constructor
      · intro hc; cases hc
      · intro hp; exact absurd hp (hNpc y hy)
    · rw [hout y hy]; exact hi.mPc y
  · intro y hyp
    have hy : y ∉ N := fun hy => hNpc y hy hyp
    rw [hout y hy]; exact hi.tc0 y hyp
  · intro y; by_cases hy : y ∈ N
    · rw [(hin y hy).1]; simp
    · rw [hout y hy]; exact hi.noQueue y
  · intro y; by_cases hy : y ∈ N
    · rw [(hin y hy).1]
      constructor
      · intro hc; cases hc
      · intro hl; exact absurd hl (hNL' y hy)
    · rw [hout y hy, hi.mList y]
      constructor
      · intro hm; rcases List.mem_append.1 hm with e | e
        · exact absurd e hy
        · exact e
      · intro hm; exact List.mem_append_right _ hm
  · intro y; by_cases hy : y ∈ N
    · intro hd
      rcases (hin y hy).2 with ⟨hb, hr, _⟩ | ⟨_, hr⟩
      · rw [hb] at hd; exact ⟨by rw [hr]; exact (hi.dead y hd).1, (hin y hy).1⟩
      · exact ⟨hr, (hin y hy).1⟩
    · rw [hout y hy]; exact hi.dead y
  · intro y hyz
    have hy : y ∉ N := fun hy => hNZ y hy hyz
    rw [hout y hy]; exact hi.zero y hyz
  · intro y hyc
    have hy : y ∉ N := fun hy => hNZ y hy (hi.cycZ y hyc)
    rw [hout y hy]; exact hi.cyc y hyc
  · have : (Z ++ L').Sublist (Z ++ (N ++ L')) :=
      List.Sublist.append (List.Sublist.refl Z) (List.sublist_append_right N L')
    exact hnd.sublist this

/-- `swap_list` + `mark_self_and_append`: the collector's list goes back to the buffer. -/
theorem OI.rebuffer {h' : Id → Core} {N L' : List Id} (hi : OI h pc (N ++ L') Z Cy)
    (hin : ∀ y ∈ N, h' y = { h y with tc := 0, mark := .pc })
    (hout : ∀ y, y ∉ N → h' y = h y) : OI h' (N ++ pc) L' Z Cy := by
  have hnd := hi.ownNodup
  have hNL : ∀ y ∈ N, (h y).mark = .inList := fun y hy => (hi.mList y).2 (List.mem_append_left _ hy)
  have hNpc : ∀ y ∈ N, y ∉ pc := fun y hy hp => by have := (hi.mPc y).2 hp; rw [hNL y hy] at this; cases this
  have hNZ : ∀ y ∈ N, y ∉ Z := fun y hy => hi.not_mem_Z_of_mark (by rw [hNL y hy]; simp)
  have h1 : (N ++ L').Nodup := (List.nodup_append.1 hnd).2.1
  have hNn : N.Nodup := (List.nodup_append.1 h1).1
  have hNL' : ∀ y ∈ N, y ∉ L' := fun y hy hl => (List.nodup_append.1 h1).2.2 y hy y hl rfl
  refine ⟨?_, ?_, ?_, ?_, ?_, ?_, ?_, ?_, hi.cycZ, ?_⟩
  · exact List.nodup_append.2 ⟨hNn, hi.pcNodup, fun a ha b hb e => hNpc a ha (e ▸ hb)⟩
  · intro y; by_cases hy : y ∈ N
    · rw [hin y hy]; simp [hy]
    · rw [hout y hy, hi.mPc y]; simp [hy]
  · intro y hyp; by_cases hy : y ∈ N
    · rw [hin y hy]
    · rw [hout y hy]
      rcases List.mem_append.1 hyp with e | e
      · exact absurd e hy
      · exact hi.tc0 y e
  · intro y; by_cases hy : y ∈ N
    · rw [hin y hy]; simp
    · rw [hout y hy]; exact hi.noQueue y
  · intro y; by_cases hy : y ∈ N
    · rw [hin y hy]; simp only
      constructor
      · intro hc; cases hc
      · intro hl; exact absurd hl (hNL' y hy)
    · rw [hout y hy, hi.mList y]
      constructor
      · intro hm; rcases List.mem_append.1 hm with e | e
        · exact absurd e hy
        · exact e
      · intro hm; exact List.mem_append_right _ hm
  · intro y; by_cases hy : y ∈ N
    · rw [hin y hy]; simp only; intro hd
      have := hi.boxLive_of_mark (x := y) (by rw [hNL y hy]; simp)
      rw [this] at hd; cases hd
    · rw [hout y hy]; exact hi.dead y
  · intro y hyz
    have hy : y ∉ N := fun hy => hNZ y hy hyz
    rw [hout y hy]; exact hi.zero y hyz
  · intro y hyc
    have hy : y ∉ N := fun hy => hNZ y hy (hi.cycZ y hyc)
    rw [hout y hy]; exact hi.cyc y hyc
  · have : (Z ++ L').Sublist (Z ++ (N ++ L')) :=
      List.Sublist.append (List.Sublist.refl Z) (List.sublist_append_right N L')
    exact hnd.sublist this

end RustCc
