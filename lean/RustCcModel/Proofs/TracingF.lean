import RustCcModel.Model.TracingF
/-! Without a fault the instrumented tracing phases compute exactly `T1.tracePhases`, so the graph
theorems T1 (safety) and T2 (completeness) speak about what the machine's `collectPass` does. -/
namespace RustCc
open T1

theorem traceObjF_none (user : Nat → Bool) (edge : TS → Nat → TS) (pre post : TS → Nat → TS)
    (s : FS) (x : Nat) (h : s.fault = none) :
    (traceObjF user edge pre post s x).1 = false ∧
    (traceObjF user edge pre post s x).2.ts = post ((s.ts.h x).edges.foldl edge (pre s.ts x)) x ∧
    (traceObjF user edge pre post s x).2.fault = none := by
  unfold traceObjF
  by_cases hu : user x = true
  · simp [hu, h]
  · simp [hu, h]

theorem countObjF_none (user : Nat → Bool) (s : FS) (x : Nat) (h : s.fault = none) :
    (countObjF user s x).1 = false ∧ (countObjF user s x).2.ts = countObj s.ts x ∧
    (countObjF user s x).2.fault = none := by
  have := traceObjF_none user countEdge beginObj endObj s x h
  simpa [countObjF, countObj, beginObj] using this

theorem rootObjF_none (user : Nat → Bool) (s : FS) (x : Nat) (h : s.fault = none) :
    (rootObjF user s x).1 = false ∧ (rootObjF user s x).2.ts = rootObj s.ts x ∧
    (rootObjF user s x).2.fault = none := by
  have := traceObjF_none user rootEdge unmark (fun t _ => t) s x h
  simpa [rootObjF, rootObj, unmark] using this

theorem countPCF_none (user : Nat → Bool) : ∀ (l : List Nat) (s : FS), s.fault = none →
    (countPCF user s l).1 = false ∧ (countPCF user s l).2.1.ts = countPC s.ts l ∧
    (countPCF user s l).2.1.fault = none
  | [], s, h => by simp [countPCF, countPC, h]
  | x :: rest, s, h => by
    obtain ⟨h1, h2, h3⟩ := countObjF_none user s x h
    unfold countPCF countPC
    generalize hr : countObjF user s x = r at h1 h2 h3
    obtain ⟨b, s'⟩ := r
    simp only at h1 h2 h3
    subst h1
    simp only
    have ih := countPCF_none user rest s' h3
    rw [← h2]; exact ih

theorem countQueueF_none (user : Nat → Bool) : ∀ (fuel : Nat) (s : FS), s.fault = none →
    (countQueueF user fuel s).1 = false ∧ (countQueueF user fuel s).2.ts = countQueue fuel s.ts ∧
    (countQueueF user fuel s).2.fault = none
  | 0, s, h => by simp [countQueueF, countQueue, h]
  | fuel + 1, s, h => by
    unfold countQueueF countQueue
    cases hq : s.ts.queue with
    | nil => simp [h]
    | cons x q =>
      simp only
      have h0 : ({ s with ts := { s.ts with queue := q } } : FS).fault = none := h
      obtain ⟨h1, h2, h3⟩ := countObjF_none user { s with ts := { s.ts with queue := q } } x h0
      generalize hr : countObjF user { s with ts := { s.ts with queue := q } } x = r at h1 h2 h3
      obtain ⟨b, s'⟩ := r
      simp only at h1 h2 h3
      subst h1
      simp only
      have ih := countQueueF_none user fuel s' h3
      rw [← h2]; exact ih

theorem rootsListF_none (user : Nat → Bool) : ∀ (l : List Nat) (s : FS), s.fault = none →
    (rootsListF user s l).1 = false ∧ (rootsListF user s l).2.1.ts = rootsList s.ts l ∧
    (rootsListF user s l).2.1.fault = none
  | [], s, h => by simp [rootsListF, rootsList, h]
  | x :: rest, s, h => by
    obtain ⟨h1, h2, h3⟩ := rootObjF_none user s x h
    unfold rootsListF rootsList
    generalize hr : rootObjF user s x = r at h1 h2 h3
    obtain ⟨b, s'⟩ := r
    simp only at h1 h2 h3
    subst h1
    simp only
    have ih := rootsListF_none user rest s' h3
    rw [← h2]; exact ih

theorem rootsQueueF_none (user : Nat → Bool) : ∀ (fuel : Nat) (s : FS), s.fault = none →
    (rootsQueueF user fuel s).1 = false ∧ (rootsQueueF user fuel s).2.ts = rootsQueue fuel s.ts ∧
    (rootsQueueF user fuel s).2.fault = none
  | 0, s, h => by simp [rootsQueueF, rootsQueue, h]
  | fuel + 1, s, h => by
    unfold rootsQueueF rootsQueue
    cases hq : s.ts.queue with
    | nil => simp [h]
    | cons x q =>
      simp only
      have h0 : ({ s with ts := { s.ts with queue := q } } : FS).fault = none := h
      obtain ⟨h1, h2, h3⟩ := rootObjF_none user { s with ts := { s.ts with queue := q } } x h0
      generalize hr : rootObjF user { s with ts := { s.ts with queue := q } } x = r at h1 h2 h3
      obtain ⟨b, s'⟩ := r
      simp only at h1 h2 h3
      subst h1
      simp only
      have ih := rootsQueueF_none user fuel s' h3
      rw [← h2]; exact ih

/-- **Glue.** A fault-free `tracePhasesF` completes, and its heap and lists are those of `T1.tracePhases`. -/
theorem tracePhasesF_noFault (user : Nat → Bool) (fuel : Nat) (h : Heap) (pc : List Nat) :
    ∃ s : FS, tracePhasesF user fuel h pc none = (.done s, none) ∧ s.ts = tracePhases fuel h pc := by
  unfold tracePhasesF tracePhases
  obtain ⟨a1, a2, a3⟩ := countPCF_none user pc { ts := { h := h }, fault := none } rfl
  generalize hr1 : countPCF user { ts := { h := h }, fault := none } pc = r1 at a1 a2 a3
  obtain ⟨b1, s1, rest1⟩ := r1
  simp only at a1 a2 a3
  subst a1
  simp only
  obtain ⟨b2, b3, b4⟩ := countQueueF_none user fuel s1 a3
  generalize hr2 : countQueueF user fuel s1 = r2 at b2 b3 b4
  obtain ⟨bb, s2⟩ := r2
  simp only at b2 b3 b4
  subst b2
  simp only
  have h0 : ({ s2 with ts := { s2.ts with root := [] } } : FS).fault = none := b4
  obtain ⟨c1, c2, c3⟩ := rootsListF_none user s2.ts.root { s2 with ts := { s2.ts with root := [] } } h0
  generalize hr3 : rootsListF user { s2 with ts := { s2.ts with root := [] } } s2.ts.root = r3 at c1 c2 c3
  obtain ⟨b3', s3, rest3⟩ := r3
  simp only at c1 c2 c3
  subst c1
  simp only
  obtain ⟨d1, d2, d3⟩ := rootsQueueF_none user fuel s3 c3
  generalize hr4 : rootsQueueF user fuel s3 = r4 at d1 d2 d3
  obtain ⟨b4', s4⟩ := r4
  simp only at d1 d2 d3
  subst d1
  simp only
  refine ⟨s4, by rw [d3], ?_⟩
  rw [d2, c2, b3, a2]

end RustCc
